#!/venv/bin/python -B
"""Single entry point: vcheck.py <Cxx> [--tier quick|thorough] [--replay file]"""
import os
import sys

HERE = os.path.dirname(os.path.abspath(__file__))
sys.dont_write_bytecode = True
if os.environ.get("PYTHONHASHSEED") != "0" and not os.environ.get("VERIF_NO_REEXEC"):
    # hash order must not influence any run: pin it, in a fresh interpreter
    env = dict(os.environ, PYTHONHASHSEED="0")
    os.execve(sys.executable, [sys.executable, "-B"] + sys.argv, env)
sys.path.insert(0, HERE)
deps = os.path.join(HERE, ".deps")
if os.path.isdir(deps):
    sys.path.insert(1, deps)
os.chdir(HERE)


def main(argv):
    import argparse
    import importlib
    import traceback

    ap = argparse.ArgumentParser()
    ap.add_argument("prop")
    ap.add_argument("--tier", default=os.environ.get("VERIF_TIER", "quick"),
                    choices=["quick", "thorough"])
    ap.add_argument("--replay", default=None)
    a = ap.parse_args(argv)
    try:
        seed = int(os.environ.get("VERIF_SEED", "1") or "1")
    except ValueError:
        seed = 1
    try:
        from vlib import runner
        mod = importlib.import_module("checks." + a.prop.lower())
        return runner.run_check(mod, a.tier, seed, a.replay)
    except SystemExit:
        raise
    except BaseException:
        print(f"HARNESS-ERROR property={a.prop}", flush=True)
        traceback.print_exc()
        return 2


if __name__ == "__main__":
    sys.exit(main(sys.argv[1:]))
