#!/venv/bin/python -B
"""Sensitivity harness: apply one textual mutation to a scratch copy of /repo and run a check.

usage: tools/sens.py <Cxx> <relative file> <old> <new> [--tier quick] [--count N] [--tests]
The scratch copy lives under $TMPDIR and is removed afterwards. Exit 0 if the check DETECTED
the mutation (exit code 1 + VIOLATION line), 1 if it was missed.
"""
import argparse
import os
import shutil
import subprocess
import sys
import tempfile

HERE = os.path.dirname(os.path.dirname(os.path.abspath(__file__)))


def main():
    ap = argparse.ArgumentParser()
    ap.add_argument("prop")
    ap.add_argument("file")
    ap.add_argument("old")
    ap.add_argument("new")
    ap.add_argument("--tier", default="quick")
    ap.add_argument("--count", type=int, default=1, help="expected number of occurrences (0=all)")
    ap.add_argument("--nth", type=int, default=None, help="replace only the nth occurrence (0-based)")
    ap.add_argument("--tests", action="store_true", help="also run the repo test suite in the copy")
    ap.add_argument("--seed", default="1")
    a = ap.parse_args()
    tmp = tempfile.mkdtemp(prefix="sens_")
    try:
        dst = os.path.join(tmp, "repo")
        shutil.copytree("/repo", dst, ignore=shutil.ignore_patterns(".git", "__pycache__", "*.pyc"))
        p = os.path.join(dst, a.file)
        s = open(p, encoding="utf-8").read()
        n = s.count(a.old)
        if n == 0:
            print(f"SENS-ERROR: pattern not found in {a.file}")
            return 2
        if a.nth is not None:
            idx = -1
            for _ in range(a.nth + 1):
                idx = s.index(a.old, idx + 1)
            s = s[:idx] + a.new + s[idx + len(a.old):]
        else:
            if a.count and n != a.count:
                print(f"SENS-ERROR: pattern occurs {n} times, expected {a.count}")
                return 2
            s = s.replace(a.old, a.new)
        open(p, "w", encoding="utf-8").write(s)
        if a.tests:
            r = subprocess.run(["/venv/bin/python", "-m", "pytest", "-q", "-p", "no:cacheprovider",
                                "--continue-on-collection-errors", "--no-header"],
                               cwd=dst, capture_output=True, text=True,
                               env=dict(os.environ, PYTHONPATH=os.path.join(dst, "src")))
            tail = r.stdout.strip().splitlines()[-1:] if r.stdout.strip() else []
            print("repo tests in mutant:", tail)
        env = dict(os.environ, VERIF_REPO=dst, VERIF_SEED=a.seed)
        r = subprocess.run([os.path.join(HERE, "vcheck.py"), a.prop, "--tier", a.tier],
                           env=env, capture_output=True, text=True)
        lines = [l for l in r.stdout.splitlines() if l.startswith(("VIOLATION", "violation", "HARNESS", "KNOWN")) or a.prop in l[:4]]
        for l in lines[:8]:
            print("   ", l[:300])
        if r.returncode == 2:
            print(r.stdout[-2000:], r.stderr[-2000:])
        det = r.returncode == 1 and "VIOLATION property=" + a.prop in r.stdout
        print(f"SENS {a.prop} {a.file} {a.old!r}->{a.new!r}: {'DETECTED' if det else 'MISSED (exit %d)' % r.returncode}")
        return 0 if det else 1
    finally:
        shutil.rmtree(tmp, ignore_errors=True)


if __name__ == "__main__":
    sys.exit(main())
