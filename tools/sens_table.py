#!/venv/bin/python -B
"""Runs every deliberate break of tools/sens_cases.py (optionally only for some properties) and
writes tools/sens_results.json + a markdown table to stdout."""
import json, os, subprocess, sys
from concurrent.futures import ThreadPoolExecutor
HERE = os.path.dirname(os.path.abspath(__file__))
sys.path.insert(0, HERE)
from sens_cases import CASES
only = set(sys.argv[1:])

def run(i_case):
    i, (prop, f, old, new, expect, note) = i_case
    r = subprocess.run([os.path.join(HERE, "sens.py"), prop, f, old, new, "--count", "0"], capture_output=True, text=True)
    det = "DETECTED" in r.stdout
    err = "SENS-ERROR" in r.stdout or "HARNESS" in r.stdout
    clause = ""
    for l in r.stdout.splitlines():
        if l.strip().startswith("violation "):
            clause = l.strip().split(" ", 2)[1].rstrip(":")
            break
    return {"i": i, "property": prop, "file": f, "note": note, "expect": expect, "detected": det, "error": err,
            "clause": clause, "ok": (det == (expect == "detect")) and not (err and not det), "tail": r.stdout[-300:] if err else ""}

todo = [(i, c) for i, c in enumerate(CASES) if not only or c[0] in only]
with ThreadPoolExecutor(max_workers=3) as ex:
    results = list(ex.map(run, todo))
json.dump(results, open(os.path.join(HERE, "sens_results.json"), "w"), indent=1)
print("| property | deliberate break | expected | result | clause |")
print("|---|---|---|---|---|")
for r in results:
    res = ("DETECTED" if r["detected"] else "quiet") + (" (harness error)" if r["error"] and not r["detected"] else "")
    print(f"| {r['property']} | {r['note']} | {r['expect']} | {res}{'' if r['ok'] else ' **UNEXPECTED**'} | {r['clause']} |")
