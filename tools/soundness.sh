#!/bin/sh
# Runs every registered quick check at several seeds; prints one line per (check, seed).
# usage: tools/soundness.sh [tier] [seeds...]
TIER=${1:-quick}; shift
SEEDS=${*:-"1 2 3 7 11 12345"}
cd "$(dirname "$0")/.."
for s in $SEEDS; do
  for c in C01 C02 C03 C04 C05 C06 C07 C08 C09 C10 C11 C12 C13 C14 C15 C16 C17 C18 C19 C20; do
    out=$(VERIF_SEED=$s ./vcheck.py $c --tier $TIER 2>&1); rc=$?
    line=$(echo "$out" | grep "^$c tier" | tail -1)
    echo "seed=$s rc=$rc $line"
    if [ $rc -ne 0 ]; then echo "$out" | grep -v "SyntaxWarning\|^  writer\|^  self" | tail -15; fi
  done
done
