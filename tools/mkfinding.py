#!/venv/bin/python -B
"""Helper used while building: writes a pinned finding file from a python literal case."""
import json, sys
prop, name = sys.argv[1], sys.argv[2]
case = json.load(sys.stdin)
path = f"/verif/findings/{prop}-{name}.json"
json.dump({"property": prop, "case": case}, open(path, "w"), indent=1)
print(path)
