"""Deliberate breaks used to validate the checks (DESIGN section 7). Each entry:
(property, file, old, new, expectation, note). expectation: 'detect' or 'quiet' (negative control)."""
FCG = "protocol_code_generator/generate/field_code_generator.py"
OCG = "protocol_code_generator/generate/object_code_generator.py"
SCG = "protocol_code_generator/generate/switch_code_generator.py"
CG = "protocol_code_generator/generate/code_generator.py"
TF = "protocol_code_generator/type/type_factory.py"
CB = "protocol_code_generator/generate/code_block.py"
W = "src/eolib/data/eo_writer.py"
R = "src/eolib/data/eo_reader.py"
META = "src/eolib/protocol/protocol_enum_meta.py"

CASES = [
    # ---- C01
    ("C01", FCG, 'self._data.serialize.begin_control_flow("if i > 0")', 'self._data.serialize.begin_control_flow("if i > 1")', "detect", "separator guard off by one"),
    ("C01", FCG, "offset_expression = FieldCodeGenerator._get_length_offset_expression(self._offset)", "offset_expression = None", "detect", "offset dropped on read"),
    ("C01", OCG, "result._byte_size = reader.position - reader_start_position", "result._byte_size = reader.position", "detect", "byte_size from the wrong start"),
    ("C01", FCG, "int(reader.remaining / {element_size})", "int(reader.remaining / {element_size}) + 1", "detect", "unbounded fixed-size array count +1"),
    ("C01", FCG, 'self._data.deserialize.begin_control_flow(f"if i + 1 < {array_length_expression}")', 'self._data.deserialize.begin_control_flow(f"if i < {array_length_expression}")', "detect", "reader consumes a separator after the last element"),
    # ---- C02
    ("C02", FCG, "offset_expression = FieldCodeGenerator._get_length_offset_expression(-self._offset)", "offset_expression = FieldCodeGenerator._get_length_offset_expression(self._offset)", "detect", "length written plus offset"),
    ("C02", OCG, 'get_boolean_attribute(protocol_array, "trailing-delimiter", True)', 'get_boolean_attribute(protocol_array, "trailing-delimiter", False)', "detect", "trailing delimiter default flipped"),
    ("C02", OCG, '"if len(writer) == old_writer_length"', '"if len(writer) != old_writer_length"', "detect", "dummy guard inverted"),
    ("C02", OCG, '            self._data.serialize.add_line("writer.string_sanitization_mode = True")\n', "", "detect", "sanitisation not switched on in <chunked>"),
    ("C02", FCG, 'return f"writer.add_three({value_expression})"', 'return f"writer.add_short({value_expression})"', "detect", "three written as short"),
    ("C02", CG, "family_enum_value = family_type.get_enum_value_by_name(family_attribute)", "family_enum_value = family_type.values[0]", "detect", "family() returns the first member"),
    ("C02", OCG, '        self._data.serialize.add_line("writer.add_byte(0xFF)")\n        self._data.deserialize.add_line("reader.next_chunk()")', '        self._data.serialize.add_line("writer.add_byte(0xFE)")\n        self._data.deserialize.add_line("reader.next_chunk()")', "detect", "break emitted as 0xFE"),
    ("C02", SCG, "keyword = 'if' if start else 'elif'", "keyword = 'if'", "detect", "elif chain broken into independent ifs (default body also runs)"),
    # ---- C03
    ("C03", FCG, 'self._data.deserialize.begin_control_flow("if reader.remaining > 0")', 'self._data.deserialize.begin_control_flow("if True")', "detect", "optional read without the remaining guard"),
    ("C03", FCG, 'self._data.deserialize.begin_control_flow("while reader.remaining > 0")', 'self._data.deserialize.begin_control_flow("while reader.remaining >= 0")', "detect", "non-terminating unbounded array loop"),
    ("C03", FCG, '            self._data.deserialize.add_line("reader.next_chunk()")\n            if needs_guard:', '            if needs_guard:', "detect", "next_chunk omitted after delimited elements"),
    ("C03", META, "except ValueError:", "except KeyError:", "detect", "unknown ordinals raise"),
    ("C03", R, "        length = min(length, self.remaining)\n", "        length = min(length, len(self._data) - self._position)\n", "detect", "reads ignore the chunk boundary"),
    # ---- C15
    ("C15", OCG, "        result.add_line('writer.string_sanitization_mode = old_string_sanitization_mode')", "        result.add_line('pass')", "detect", "writer mode not restored"),
    ("C15", OCG, "            .add_line('reader.chunked_reading_mode = old_chunked_reading_mode')", "            .add_line('reader.chunked_reading_mode = False')", "detect", "reader mode restored to False"),
    # ---- C16
    ("C16", FCG, '        self._data.serialize.begin_control_flow(f"if data._{self._name} is None")', '        self._data.serialize.begin_control_flow(f"if False")', "detect", "None guard dropped"),
    ("C16", FCG, 'length_check_operator = ">" if variable_size else "!="', 'length_check_operator = ">"', "detect", "exact length check loosened to >"),
    ("C16", FCG, "            length_expression = str(get_max_value_of(field_data.type_) + field_data.offset)\n        else:\n            length_expression = self._length_string\n\n        if length_expression is None:", "            length_expression = str(get_max_value_of(field_data.type_) + field_data.offset + 3)\n        else:\n            length_expression = self._length_string\n\n        if length_expression is None:", "quiet", "bound loosened by 3: still refused by the writer's range check of the length field (negative control)"),
    ("C16", SCG, '                f"if not isinstance(data._{self._case_data_field_name}, {case_data_type_name})"', '                f"if data._{self._case_data_field_name} is None"', "detect", "isinstance guard weakened to a None check"),
    ("C16", W, "        self._check_number_size(number, THREE_MAX - 1)", "        pass", "detect", "writer range check for three dropped"),
    # ---- C17
    ("C17", FCG, "        self._validate_unique_name()\n", "", "detect", "unique-name validation dropped"),
    ("C17", SCG, "        case_context.accessible_fields.clear()", "        case_context.accessible_fields.clear()\n        case_context.reached_optional_field = False", "detect", "required-after-optional not enforced inside cases"),
    ("C17", FCG, "            self._context.length_field_is_referenced_map[self._length_string] = True", "            pass", "detect", "length field never marked referenced"),
    ("C17", OCG, "        if delimited and not self._context.chunked_reading_enabled:", "        if False:", "detect", "delimited-outside-chunk check skipped"),
    ("C17", SCG, "            if start:\n                raise RuntimeError(\"Standalone default case is not allowed.\")", "            pass", "detect", "default-first allowed"),
    # ---- C18
    ("C18", CB, "import_strings = sorted(import_strings, reverse=True)", "import_strings = list(import_strings)", "detect", "imports rendered in set order"),
    ("C18", CG, "            self._type_factory.clear()", "            pass", "detect", "type factory state kept across generate() calls"),
    ("C18", CB, "            + pascal_case_to_snake_case(custom_type.name)", "            + custom_type.name.lower()", "detect", "import path derived with a different case conversion"),
    ("C18", "src/eolib/protocol/__init__.py", "from .pub import *", "", "detect", "star import dropped from a static __init__"),
    # ---- C19
    ("C19", FCG, "            if self._array_field:\n                expression = f'tuple({expression})'", "            if self._array_field:\n                expression = f'{expression}'", "detect", "array argument stored without copying"),
    ("C19", OCG, "            .add_line('return self._byte_size')\n            .unindent()", "            .add_line('return self._byte_size')\n            .unindent()\n            .add_line('@byte_size.setter')\n            .add_line('def byte_size(self, v):')\n            .indent()\n            .add_line('self._byte_size = v')\n            .unindent()", "detect", "byte_size gets a setter"),
    # ---- C20
    ("C20", "src/eolib/protocol/__init__.py", "net = _sys.modules[__name__ + '.net']", "", "detect", "rebinding of eolib.protocol.net removed"),
    ("C20", "src/eolib/data/__init__.py", "from .eo_writer import *", "", "detect", "EoWriter no longer exported"),
    ("C20", "src/eolib/__init__.py", "from .encrypt import *\nfrom .packet import *", "from .packet import *\nfrom .encrypt import *", "quiet", "reordered star imports (negative control)"),
    # ---- core spot checks
    ("C07", "src/eolib/data/number_encoding_utils.py", "if number >= SHORT_MAX:", "if number > SHORT_MAX:", "detect", "> for >= at one threshold"),
    ("C11", "src/eolib/encrypt/server_verification_utils.py", "if a < 0 and result != 0:", "if a < 0:", "detect", "D1 regression"),
    ("C12", "src/eolib/packet/sequence_start.py", "seq1_min = max(0, int((value - (CHAR_MAX - 1) + 13 + 6) / 7))", "seq1_min = max(0, int((value - (CHAR_MAX - 1) + 13) / 7))", "detect", "+6 dropped"),
    ("C12", "src/eolib/packet/sequence_start.py", "seq1 = value + random.randrange(0, CHAR_MAX - 1)", "seq1 = value + random.randrange(0, CHAR_MAX)", "quiet", "seq2 = 252 still fits (negative control)"),
    ("C13", "src/eolib/packet/packet_sequencer.py", "            start (SequenceStart): The new sequence start.\n        \"\"\"\n        self._start = start", "            start (SequenceStart): The new sequence start.\n        \"\"\"\n        self._start = start\n        self._counter = 0", "detect", "counter reset on update"),
    # ---- families added in rounds 6-8
    ("C18", CG, "        finally:\n            self._protocol_files.clear()", "        except KeyboardInterrupt:\n            raise\n        else:\n            self._protocol_files.clear()", "detect", "per-run state only cleared after a successful run"),
    ("C18", "protocol_code_generator/generate/python_file.py", 'with open(output_path, "w", encoding="utf-8") as file:', 'with open(output_path, "w") as file:', "detect", "output written in the platform's default encoding"),
    ("C18", CG, "            tree = ElementTree.parse(path)\n            protocol = tree.getroot()", "            with open(path, encoding=\"utf-8-sig\") as fh_:\n                protocol = ElementTree.fromstring(fh_.read())", "detect", "XML always read as UTF-8 text"),
    ("C19", R, "        return self._read_bytes(length)\n\n    def get_char", "        return self._data[self._position:self._position + 0] if length == 0 else memoryview(self._read_bytes(length))\n\n    def get_char", "quiet", "get_bytes returns a view of a private copy (negative control for C19: still a snapshot)"),
    ("C09", W, "        if len(string) != length:\n            raise ValueError", "        if len(string) != length and length >= 0:\n            raise ValueError", "detect", "a negative length is read as 'no length requested'"),
    ("C09", W, "            if length >= len(string):\n                return", "            if length >= len(string) or not string:\n                return", "quiet", "equivalent change (the padding helper still refuses negative lengths): negative control"),
    ("C13", "src/eolib/packet/packet_sequencer.py", "        self._start = start\n        self._counter = 0", "        self._start = start\n        import threading as _t\n        self._tl = _t.local()\n        self._counter = 0", "quiet", "unused thread-local (negative control)"),
    ("C14", META, "        try:\n            if not cls._member_map_:", "        if isinstance(type(value), ProtocolEnumMeta) and type(value) is not cls:\n            return value\n        try:\n            if not cls._member_map_:", "detect", "values of other protocol enums returned as they are"),
    ("C08", "src/eolib/data/string_encoding_utils.py", "def decode_string(bytes: bytearray) -> None:", "def decode_string(bytes: bytearray) -> None:\n    if type(bytes) is not bytearray:\n        return", "detect", "bytearray subclasses ignored by decode_string"),
]
