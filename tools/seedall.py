#!/venv/bin/python -B
"""Re-evaluates every seeded change under /verif/seeded with the current checks and writes
seeded/RESULTS.json + a markdown table (stdout). usage: tools/seedall.py [out.json]"""
import json, os, subprocess, sys
HERE = os.path.dirname(os.path.dirname(os.path.abspath(__file__)))
SEEDED = "/verif/seeded"
out_path = sys.argv[1] if len(sys.argv) > 1 else os.path.join(SEEDED, "RESULTS.json")
rows = []
JOBS = int(os.environ.get("SEEDALL_JOBS", "1"))


def one(name):
    d = os.path.join(SEEDED, name)
    meta = json.load(open(os.path.join(d, "meta.json")))
    prop = meta["property"]
    r = subprocess.run([os.path.join(HERE, "tools", "seedtest.py"), d, prop], capture_output=True, text=True)
    try:
        res = json.loads(r.stdout)
    except Exception:
        res = {"error": (r.stdout + r.stderr)[-500:]}
    ck = (res.get("checks") or {}).get(prop, {})
    others = {}
    if not ck.get("detected") and res.get("tests_ok") and res.get("demo_ok") and not meta.get("not_detected_because"):
        # missed by the property's own check: do the checks of neighbouring properties see it?
        gen_group = ["C18", "C02", "C03", "C01", "C15", "C16", "C19", "C17", "C20", "C14"]
        core_group = ["C04", "C05", "C06", "C09", "C07", "C08", "C10"]
        group = [p for p in (gen_group if prop in gen_group else core_group) if p != prop][:6]
        r2 = subprocess.run([os.path.join(HERE, "tools", "seedtest.py"), d] + group, capture_output=True, text=True)
        try:
            others = {k: v.get("detected") for k, v in (json.loads(r2.stdout).get("checks") or {}).items()}
        except Exception:
            others = {}
    row = {"other_checks": others, "id": name, "property": prop, "patch_applies": res.get("patch_applies"),
           "tests_ok": res.get("tests_ok"), "demo_ok": res.get("demo_ok"),
           "detected": ck.get("detected"), "exit": ck.get("exit"), "clauses": ck.get("clauses"),
           "by_design_not_flagged": meta.get("not_detected_because"), "error": res.get("error")}
    print(f"| {name} | {prop} | {'confirmed' if res.get('tests_ok') and res.get('demo_ok') else 'NOT CONFIRMED'} | "
          f"{'DETECTED' if ck.get('detected') else 'missed (exit %s)' % ck.get('exit')} | {', '.join((ck.get('clauses') or [])[:2])}"
          f"{' caught by ' + ','.join(k for k, v in others.items() if v) if any(others.values()) else ''}"
          f"{' (outside the property by design)' if meta.get('not_detected_because') else ''} |", flush=True)
    return row


names = [n for n in sorted(os.listdir(SEEDED)) if os.path.isfile(os.path.join(SEEDED, n, "patch.diff"))]
only = os.environ.get("SEEDALL_ONLY")
if only:
    names = [n for n in names if n.startswith(tuple(only.split(",")))]
from concurrent.futures import ThreadPoolExecutor
with ThreadPoolExecutor(JOBS) as ex:
    for row in ex.map(one, names):
        rows.append(row)
        json.dump(rows, open(out_path, "w"), indent=1)
