#!/venv/bin/python -B
"""Regenerates MANIFEST.json from the table below and validates it against the schema."""
import json
import os
import sys

HERE = os.path.dirname(os.path.dirname(os.path.abspath(__file__)))
PY = "/venv/bin/python -B vcheck.py"

# id -> (technique, level text, level note, design ref)
CHECKS = {
    "C07": (
        "bounded-exhaustive enumeration + Hypothesis draws against an independent positional model",
        "Every integer below 253^3 and every byte string of length <= 3 is enumerated (quick); the "
        "thorough tier enumerates all 253^4 integers. Encode is compared with a positional model, "
        "decode with the documented formula, plus round trip and k-byte prefix; drawn call sequences check that an "
        "encoding does not depend on earlier calls (also calls that raised, run in a forked child with a deadlock "
        "timeout) nor on the caller's decimal context; spot checks in fresh interpreters under "
        "-O/-OO/-W error/-bb/-X dev and as the library's first calls issued by eight threads. Exhaustive over the "
        "stated ranges, sampled (stratified + random) for 4-byte values in the quick tier.",
        "Trusted: the harness' positional model (pinned by the repository's 24 vectors).",
        "DESIGN.md 5/C07",
    ),
    "C02": (
        "grammar-based Hypothesis generation of protocol XML trees + differential comparison with an "
        "independent reference interpreter; metamorphic explicit-defaults pairs",
        "Generated spec trees are fed to the real code generator, the output is imported and every drawn "
        "constructible object is serialised; bytes must equal an independent interpretation of the XML "
        "(reference writer + reference interpreter), into empty and pre-filled writers. Packets: "
        "write()/family()/action(). Metamorphic: "
        "spelling boolean defaults explicitly must not change generated code or bytes. Sampled, not "
        "exhaustive: ~4.8k trees / ~30k objects quick, ~40k trees thorough.",
        "Trusted: vlib/refinterp.py + refio.py as the eo-protocol semantics (silent points follow the "
        "unchanged tree, DESIGN 3.4); degenerate constructs of DESIGN 4.1 are not generated.",
        "DESIGN.md 5/C02",
    ),
    "C11": (
        "exhaustive enumeration over 64 process shards against an independent reference formula",
        "All 16,194,277 three-byte challenges are enumerated in both tiers and compared with the published "
        "formula evaluated with an explicit truncating remainder written in the harness; the documented "
        "non-negativity / EO-int bound is checked for every challenge <= 11,092,110. Exhaustive. A strided subset is "
        "asked again (twice, ascending then descending) to expose call-history dependence, and ~5,000 challenges are "
        "recomputed in fresh `python -O` / `-OO` interpreters.",
        "Trusted: the published formula and C remainder convention, pinned by the repository's 15 vectors.",
        "DESIGN.md 5/C11",
    ),
    "C12": (
        "exhaustive depth-first enumeration of random-source outcomes via function substitution",
        "The complete choice tree of the three generate() functions is enumerated by substituting the "
        "random module's draw functions with a scripted source that observes the requested ranges "
        "(500,755 leaves on the pinned tree); each leaf: no exception, documented value range, field fit, "
        "reconstruction by the matching from-values constructor. Exhaustive in both tiers; exits 2 if a "
        "generate() makes no observable draw. A second pass visits contiguous first-draw blocks ascending and "
        "descending inside one process so that state kept between generate() calls shows; 300 real generate() "
        "calls per kind run under python -O and -OO.",
        "Trusted: generate() draws only through the random module functions that are substituted "
        "(anything else is a harness error, not a pass).",
        "DESIGN.md 5/C12",
    ),
    "C13": (
        "bounded-exhaustive history enumeration + Hypothesis op-list strategy interpreted by a model oracle",
        "Every history of length 10 (quick) / 13 (thorough) over {next, set(a), set(b)} for four "
        "constructor-diverse start triples, plus 5,120 / 100,000 Hypothesis-drawn histories of up to 60 "
        "steps with arbitrary integer start values (including starts whose value is temporarily unavailable: a "
        "request that fails must not consume a counter slot; one history in six makes every call on a thread of "
        "its own), checked step by step against start + n mod 10 on "
        "two lockstep sequencers. Bounded-exhaustive plus sampled.",
        "Trusted: the counter model in the check; start values are read through .value.",
        "DESIGN.md 5/C13",
    ),
    "C18": (
        "grammar-based Hypothesis generation of spec trees x generated configurations (hash seed, "
        "directory-walk permutation, creation order, reruns) with byte-identity and fresh-interpreter "
        "import oracles",
        "Each generated valid tree is run through the real generator in-process, again with permuted "
        "os.walk results / reversed creation order / twice into a pre-populated directory / from the same "
        "documents in another spelling (CRLF, XML comments, attribute order, quotes, BOM, declared encodings) next to unrelated files, "
        "by a generator object that has processed an earlier revision before, and in a "
        "subprocess under a drawn PYTHONHASHSEED (half of them in the plain C locale, four spellings of the input "
        "and output paths); outputs must be byte-identical. A fresh interpreter then "
        "imports eolib and checks every declared type (class, __module__, exported from its public "
        "subpackage and from eolib). Sampled: ~800 trees quick, ~5000 thorough. Two open known findings "
        "(import cycles caused by the star-importing package layout) are pinned and excluded by construction.",
        "Trusted: the harness' own naming convention (spec.pascal_to_snake) for expected module paths; "
        "walk orders are simulated; one interpreter (3.12.1).",
        "DESIGN.md 5/C18",
    ),
    "C01": (
        "grammar-based Hypothesis generation of canonical spec trees x valid objects; round trip through the "
        "generated code, domain delimited by a reference interpreter",
        "Generated wire-unambiguous spec trees are fed to the real generator; every drawn valid object the "
        "format can carry (decided by the reference interpreter's own round trip) is serialised with a fresh "
        "writer and deserialised with a fresh reader; result must equal the original field by field, consume "
        "exactly the bytes written, and report byte_size (nested too). Sampled: ~6.4k trees / ~50k objects "
        "quick, ~40k trees thorough.",
        "Trusted: the reference interpreter only as domain filter (a too-permissive reference could cause a "
        "false alarm, a too-strict one only lowers yield; C02/C03 compare it with the code directly).",
        "DESIGN.md 5/C01",
    ),
    "C03": (
        "grammar-based Hypothesis generation of spec trees x mutated/truncated/random byte strings; "
        "differential against a reference deserializer, guard-band metamorphic, operation-budget termination",
        "For generated spec trees the generated deserializers are run on valid serialisations, every kind of "
        "truncation/corruption/junk/random bytes, in plain and chunked entry mode; the returned object, "
        "byte_size and final position must equal the reference interpreter's; only the documented ValueError "
        "may escape; results must not depend on bytes outside the reader's slice; a deterministic operation "
        "budget detects non-progressing loops. Sampled: ~3.2k trees / ~90k inputs quick, ~25k trees thorough.",
        "Trusted: vlib/refinterp.py + RefReader as the reading rules; inputs needing > 20,000 reference loop "
        "iterations are skipped and counted.",
        "DESIGN.md 5/C03",
    ),
    "C04": (
        "Hypothesis op-list strategy interpreted by a write-then-read-back oracle with an own cp1252 table",
        "20k (quick) / 400k (thorough) sequences of typed writes are written with a fresh EoWriter and read back "
        "with the matching get_* calls on a fresh EoReader; expected values are the written values (strings as "
        "their cp1252 image from the harness' own table), exact consumption required. Sampled.",
        "Trusted: the harness' cp1252 table; the stated exclusions (y-diaeresis in padded strings, tilde in "
        "encoded strings) follow the property's domain.",
        "DESIGN.md 5/C04",
    ),
    "C05": (
        "bounded-exhaustive history enumeration (state-forking tree walk) + Hypothesis op-list histories in "
        "lockstep with an independent reference reader on sentinel-padded buffers",
        "Every byte string over {00,01,FE,FF} of length <= 5 x every operation sequence of length <= 3 (quick) / "
        "<= 4 (thorough) over a 24-operation menu (typed reads, over-reads, mode switches, next_chunk, slices and "
        "slices of slices, documented ValueErrors), compared after every operation (value/exception type, "
        "position, remaining, mode of every reader in the pool, bounds) with a cache-free reference reader, under "
        "two sentinel patterns; plus 5,120 / 100,000 Hypothesis histories of up to 50 ops over 0-64 arbitrary "
        "bytes (slices, slices of slices, readers dropped while others live on; three in eight also through an "
        "application subclass of the reader or over a memoryview window the caller releases afterwards), and chunked readers over chunks of "
        "EVERY length 0..8200 (and around 2^14..2^17). Exhaustive over the "
        "stated bounds, sampled beyond.",
        "Trusted: RefReader (pinned by the repository's reader scripts); the tree walk assumes reader state lives "
        "in the instance __dict__ (cross-checked by from-scratch re-runs).",
        "DESIGN.md 5/C05",
    ),
    "C06": (
        "Hypothesis-generated chunk lists x two read plans; written-value oracle + non-interference comparison",
        "20k / 400k cases of 1-6 chunks of typed fields written with sanitisation on and joined by break bytes, "
        "read under two drawn plans (under-reads, over-reads with surplus reads, next_chunk): planned reads return "
        "the written values, surplus reads return 0/empty, chunks read under the same per-chunk plan give the same "
        "results whatever happened to other chunks, no chunk contains 0xFF; readers over plain bytes, over windows of "
        "larger buffers and over a memoryview shared with a second short-lived reader; three cases in seven first write "
        "the same texts UNsanitised as a header of the same writer or as an earlier message of another writer. Sampled.",
        "Trusted: the harness' cp1252/sanitisation expectations; tilde positions in encoded strings are masked.",
        "DESIGN.md 5/C06",
    ),
    "C08": (
        "bounded-exhaustive enumeration + Hypothesis byte strings against model-free laws and an independent table model",
        "Full 256-value sweep at every position of lengths 1..8, every string of length <= 5 (quick) / <= 7 "
        "(thorough) over a 10-symbol boundary alphabet, and Hypothesis strings up to 2048 bytes: length preserved, "
        "two-way round trip except at 0x7E, bytes outside 22..7E only move to the mirrored index, inside land in "
        "21..7D, 00/FF multiset preserved; plus equality with an independent per-byte table; patterned strings up "
        "to 2 MiB, bytearray subclasses, calls after calls that raised; fresh interpreters under -O/-OO/-W error/-bb/-X dev "
        "and with eight threads as first use. Exhaustive over the "
        "stated sets, sampled for long strings.",
        "Trusted: the table in vlib/refcodec.py (restates the property; pinned by the repository's 6 vectors).",
        "DESIGN.md 5/C08",
    ),
    "C09": (
        "Hypothesis op-list writer histories interpreted step by step against a reference writer twin",
        "16k / 200k histories of 1-40 steps over every add_* method and the mode setter (integers in range, at the "
        "limit, far beyond, beyond float range; strings (lone surrogates and longer mostly-plain ones included) with length arguments below/at/above len, padded both ways): a write the "
        "reference rejects (negative lengths included) must raise ValueError and leave contents and length unchanged; an accepted write must "
        "append exactly the reference's bytes; the mode reads back as set. Sampled.",
        "Trusted: RefWriter (vlib/refio.py), written from the property statement.",
        "DESIGN.md 5/C09",
    ),
    "C10": (
        "tag-plane observation of permutations, bounded-exhaustive enumeration and Hypothesis run layouts/pipelines "
        "against inverse/involution laws and own weave / run-reversal models",
        "interleave/deinterleave permutations observed for every length 0..2048 (quick) / 0..20000 (thorough); "
        "flip_msb on all 256 values; swap_multiples on all divisibility patterns of length <= 12 for nine multiples; "
        "Hypothesis data from drawn run layouts, multiples 0..300 / large / negative, and operation pipelines undone "
        "by inverse pipelines; buffers of 2^17-1 .. 2^20+1 bytes against the models; fresh interpreters under "
        "-O/-OO/-W error/-bb/-X dev and with eight threads as first use; calls after calls that raised. Exhaustive over "
        "the stated bounds, sampled beyond.",
        "Trusted: the weave and run-reversal models in the check (from the docstrings; pinned by the repository's "
        "vectors); negative multiple 'rejected' is read as ValueError.",
        "DESIGN.md 5/C10",
    ),
    "C14": (
        "Hypothesis construction sequences + bounded-exhaustive integer sweeps against an int-semantics model; "
        "hand-written enums with the real metaclass",
        "Drawn IntEnum declarations (1-8 members, boundary/negative/huge ordinals) using the real ProtocolEnumMeta x "
        "sequences of 1-24 constructions mixing declared and undeclared values (bools, beyond 2^64), every clause "
        "(identity for declared, isinstance/eq/hash/name/value/int/dict-key for undeclared, member set unchanged) "
        "checked after every step, also on a twin class, beside a sibling enum, under a member-less base and after "
        "short-lived enum classes have been collected; every integer 0..64008 for 8 fixed and several drawn enums. Part (b): the enum "
        "classes of ~640 (quick) / ~8000 (thorough) generated protocol packages go through the same oracle, and messages carrying undeclared ordinals are read and written back by the generated code; "
        "read-then-write of unknown ordinals is also exercised by C01/C03.",
        "Trusted: Python int semantics as the model.",
        "DESIGN.md 5/C14",
    ),
    "C16": (
        "grammar-based Hypothesis generation of spec trees x valid objects x one declaration-violating edit; "
        "refusal oracle gated by a reference serializer",
        "For generated spec trees, valid objects are changed by one violating edit at a drawn member at any depth "
        "(required None, wrong fixed length, padded too long, beyond length-field limit, integer/ordinal/element at "
        "or above the limit, wrong-kind or falsy case data, an element in a zero-length array); where the reference serializer reaches the edit, the generated "
        "serialize must raise SerializationError or ValueError and never return. Sampled: ~4k trees / ~21k "
        "refusals quick, ~40k trees thorough.",
        "Trusted: the reference interpreter to decide which edits are reached; constructor-refused objects are skipped.",
        "DESIGN.md 5/C16",
    ),
    "C17": (
        "grammar-based Hypothesis generation of valid spec trees x a 17-entry catalogue of single rule-violating "
        "edits at drawn placements; accept/reject oracle",
        "Each case verifies that the real generator accepts the valid tree and rejects the edited tree (any "
        "exception). The catalogue covers the rules named in the property at top level, inside <chunked>, inside "
        "switch cases, case-in-chunk and in every file, with variants (respelled duplicates, constants after "
        "optional members, shorter padded literals). Sampled: ~8k pairs quick, ~64k thorough.",
        "Trusted: each catalogue edit really violates the named rule (reviewed; only rules named in the statement).",
        "DESIGN.md 5/C17",
    ),
    "C19": (
        "grammar-based Hypothesis generation of spec trees x instances x mutation attempts; AttributeError / "
        "tuple / aliasing / repeat-serialize oracles",
        "For generated spec trees, constructed (lists and one-shot generators as array arguments) and deserialised "
        "instances are attacked through every public property (setattr/delattr on members, <switch>_data, "
        "byte_size, recursively into nested instances) and by mutating the caller's lists; every attempt must raise "
        "AttributeError, arrays must be tuples unaffected by the caller (lists, generators, read-only sequence "
        "views, tuples), serialize before/after must agree and must leave every field as it was, and nothing reachable from a deserialised instance may "
        "change when other data is deserialised later. "
        "Sampled: ~3.2k trees / ~16k instances / ~600k setattr attempts quick.",
        "Trusted: nothing beyond the generator of inputs; private attributes and caller-owned bytearrays for blobs "
        "are deliberately not asserted.",
        "DESIGN.md 5/C19",
    ),
    "C15": (
        "grammar-based Hypothesis generation of spec trees x inputs x injected fault index; run-time wrapping of "
        "every generated serialize/deserialize with an entry-mode == exit-mode invariant",
        "Every generated serialize/deserialize (top level and every nested struct / case class, wrapped at run "
        "time) is observed on valid objects, invalid objects, valid/truncated/corrupt bytes, both entry modes, "
        "fault-free and with a writer/reader that raises at its k-th operation for drawn k over the whole run; the "
        "mode at exit (return or raise) must equal the mode at entry; on fault-free runs the sequence of (nested "
        "class, mode at entry) must equal the reference interpreter's call tree (the 'consequently' clause). "
        "Sampled: ~3.2k trees / ~75k observed top-level calls quick, ~25k trees thorough.",
        "Trusted: faults are injected at the public writer/reader operations; the wrapper observes the public mode "
        "properties.",
        "DESIGN.md 5/C15",
    ),
    "C20": (
        "grammar-based Hypothesis generation of spec trees x drawn first-import module; fresh-interpreter "
        "identity oracles over module paths and public names",
        "For each generated tree and each drawn first import (static and generated module paths) a fresh "
        "interpreter imports it and then eolib; walking attributes from eolib along every module path must yield "
        "sys.modules[path], and every public name (static: ast-derived honouring __all__, never fewer than the 23 names pinned from the "
        "pinned commit; generated: the tree's types) must be one object in its defining module, its home subpackage and eolib; one first import per "
        "tree is made from a zip archive of the package. Sampled: ~400 trees x "
        "<= 4 first imports quick, ~2400 trees thorough.",
        "Trusted: ast-derived list of public names; one interpreter (3.12.1).",
        "DESIGN.md 5/C20",
    ),
}

NOT_APPLICABLE = {}


def main():
    props = [json.loads(l) for l in open(os.path.join(HERE, "properties.jsonl")) if l.strip()]
    ids = [p["id"] for p in props]
    checks = []
    for pid in ids:
        if pid not in CHECKS:
            continue
        tech, text, note, ref = CHECKS[pid]
        checks.append({
            "property_id": pid,
            "quick_cmd": f"{PY} {pid} --tier quick",
            "thorough_cmd": f"{PY} {pid} --tier thorough",
            "evidence_file": f"/verif/evidence/{pid}.json",
            "replay_cmd_template": f"{PY} {pid} --replay {{path}}",
            "engine": "vcheck",
            "level_claimed": {"category": "fault_enumeration" if pid == "C15" else "exploration", "text": text, "design_ref": ref},
            "level_note": note,
            "technique": tech,
        })
    na = []
    for pid in ids:
        if pid not in CHECKS:
            na.append({"property_id": pid,
                       "reason": NOT_APPLICABLE.get(pid, "check not built yet (work in progress; "
                                                    "the technique applies, see DESIGN.md section 5)")})
    man = {
        "version": 1,
        "setup_cmd": "sh ./setup.sh",
        "hooks": {
            "guard": "CIRRAS_EOLIB_PYTHON_VERIF",
            "enable": "no instrumentation is needed: every observation point is public API; "
                      "checks load /repo's working tree directly (VERIF_REPO overrides the path)",
            "baseline_off_cmd": "cd /repo && /venv/bin/python -m pytest -ra -q -p no:cacheprovider "
                                "--timeout=900 --continue-on-collection-errors",
            "source_commits": [],
            "add_only": True,
        },
        "engines": [{
            "name": "vcheck",
            "path": "/verif/vcheck.py",
            "serves_properties": [c["property_id"] for c in checks],
            "kind_free_text": "Hypothesis 6.168 strategies / rule-based state machines, bounded-"
                              "exhaustive enumeration over 16 processes, explicit reference models",
        }],
        "checks": checks,
        "notes": "All checks: `vcheck.py <id> --tier quick|thorough`, seed from VERIF_SEED, exit 0/1/2 "
                 "(2 = harness error, never a violation; a library that cannot be imported in a flagged helper interpreter "
                 "is a violation). Known findings: known_findings.txt.",
        "not_applicable": na,
    }
    path = os.path.join(HERE, "MANIFEST.json")
    with open(path, "w") as f:
        json.dump(man, f, indent=1)
        f.write("\n")
    try:
        sys.path.insert(0, "/opt/veriftools/pyvenv/lib/python3.11/site-packages")
        import jsonschema
        jsonschema.validate(man, json.load(open("/root/.vp/MANIFEST.schema.json")))
        print("MANIFEST.json valid;", len(checks), "checks,", len(na), "not_applicable")
    except ImportError:
        print("jsonschema not importable; wrote MANIFEST.json unvalidated")


if __name__ == "__main__":
    main()
