#!/venv/bin/python -B
"""Regenerates MANIFEST.json from the table below and validates it against the schema."""
import json
import os
import sys

HERE = os.path.dirname(os.path.dirname(os.path.abspath(__file__)))
PY = "/venv/bin/python -B vcheck.py"

# id -> (technique, level text, level note, design ref)
CHECKS = {
    "C07": (
        "bounded-exhaustive enumeration + Hypothesis draws against an independent positional model",
        "Every integer below 253^3 and every byte string of length <= 3 is enumerated (quick); the "
        "thorough tier enumerates all 253^4 integers. Encode is compared with a positional model, "
        "decode with the documented formula, plus round trip and k-byte prefix. Exhaustive over the "
        "stated ranges, sampled (stratified + random) for 4-byte values in the quick tier.",
        "Trusted: the harness' positional model (pinned by the repository's 24 vectors).",
        "DESIGN.md 5/C07",
    ),
    "C02": (
        "grammar-based Hypothesis generation of protocol XML trees + differential comparison with an "
        "independent reference interpreter; metamorphic explicit-defaults pairs",
        "Generated spec trees are fed to the real code generator, the output is imported and every drawn "
        "constructible object is serialised; bytes must equal an independent interpretation of the XML "
        "(reference writer + reference interpreter). Packets: write()/family()/action(). Metamorphic: "
        "spelling boolean defaults explicitly must not change generated code or bytes. Sampled, not "
        "exhaustive: ~3k trees / ~20k objects quick, ~40k trees thorough.",
        "Trusted: vlib/refinterp.py + refio.py as the eo-protocol semantics (silent points follow the "
        "unchanged tree, DESIGN 3.4); degenerate constructs of DESIGN 4.1 are not generated.",
        "DESIGN.md 5/C02",
    ),
    "C11": (
        "exhaustive enumeration over 64 process shards against an independent reference formula",
        "All 16,194,277 three-byte challenges are enumerated in both tiers and compared with the published "
        "formula evaluated with an explicit truncating remainder written in the harness; the documented "
        "non-negativity / EO-int bound is checked for every challenge <= 11,092,110. Exhaustive.",
        "Trusted: the published formula and C remainder convention, pinned by the repository's 15 vectors.",
        "DESIGN.md 5/C11",
    ),
    "C12": (
        "exhaustive depth-first enumeration of random-source outcomes via function substitution",
        "The complete choice tree of the three generate() functions is enumerated by substituting the "
        "random module's draw functions with a scripted source that observes the requested ranges "
        "(500,755 leaves on the pinned tree); each leaf: no exception, documented value range, field fit, "
        "reconstruction by the matching from-values constructor. Exhaustive in both tiers; exits 2 if a "
        "generate() makes no observable draw.",
        "Trusted: generate() draws only through the random module functions that are substituted "
        "(anything else is a harness error, not a pass).",
        "DESIGN.md 5/C12",
    ),
    "C13": (
        "bounded-exhaustive history enumeration + Hypothesis op-list strategy interpreted by a model oracle",
        "Every history of length 10 (quick) / 13 (thorough) over {next, set(a), set(b)} for four "
        "constructor-diverse start triples, plus 5,120 / 100,000 Hypothesis-drawn histories of up to 60 "
        "steps with arbitrary integer start values, checked step by step against start + n mod 10 on two "
        "lockstep sequencers. Bounded-exhaustive plus sampled.",
        "Trusted: the counter model in the check; start values are read through .value.",
        "DESIGN.md 5/C13",
    ),
    "C18": (
        "grammar-based Hypothesis generation of spec trees x generated configurations (hash seed, "
        "directory-walk permutation, creation order, reruns) with byte-identity and fresh-interpreter "
        "import oracles",
        "Each generated valid tree is run through the real generator in-process, again with permuted "
        "os.walk results / reversed creation order / twice into a pre-populated directory, and in a "
        "subprocess under a drawn PYTHONHASHSEED; outputs must be byte-identical. A fresh interpreter then "
        "imports eolib and checks every declared type (class, __module__, exported from its public "
        "subpackage and from eolib). Sampled: ~320 trees quick, ~4000 thorough. Three open known findings "
        "(import cycles, empty enum) are pinned and excluded by construction.",
        "Trusted: the harness' own naming convention (spec.pascal_to_snake) for expected module paths; "
        "walk orders are simulated; one interpreter (3.12.1).",
        "DESIGN.md 5/C18",
    ),
}

NOT_APPLICABLE = {}


def main():
    props = [json.loads(l) for l in open(os.path.join(HERE, "properties.jsonl")) if l.strip()]
    ids = [p["id"] for p in props]
    checks = []
    for pid in ids:
        if pid not in CHECKS:
            continue
        tech, text, note, ref = CHECKS[pid]
        checks.append({
            "property_id": pid,
            "quick_cmd": f"{PY} {pid} --tier quick",
            "thorough_cmd": f"{PY} {pid} --tier thorough",
            "evidence_file": f"/verif/evidence/{pid}.json",
            "replay_cmd_template": f"{PY} {pid} --replay {{path}}",
            "engine": "vcheck",
            "level_claimed": {"category": "exploration", "text": text, "design_ref": ref},
            "level_note": note,
            "technique": tech,
        })
    na = []
    for pid in ids:
        if pid not in CHECKS:
            na.append({"property_id": pid,
                       "reason": NOT_APPLICABLE.get(pid, "check not built yet (work in progress; "
                                                    "the technique applies, see DESIGN.md section 5)")})
    man = {
        "version": 1,
        "setup_cmd": "sh ./setup.sh",
        "hooks": {
            "guard": "CIRRAS_EOLIB_PYTHON_VERIF",
            "enable": "no instrumentation is needed: every observation point is public API; "
                      "checks load /repo's working tree directly (VERIF_REPO overrides the path)",
            "baseline_off_cmd": "cd /repo && /venv/bin/python -m pytest -ra -q -p no:cacheprovider "
                                "--timeout=900 --continue-on-collection-errors",
            "source_commits": [],
            "add_only": True,
        },
        "engines": [{
            "name": "vcheck",
            "path": "/verif/vcheck.py",
            "serves_properties": [c["property_id"] for c in checks],
            "kind_free_text": "Hypothesis 6.168 strategies / rule-based state machines, bounded-"
                              "exhaustive enumeration over 16 processes, explicit reference models",
        }],
        "checks": checks,
        "notes": "All checks: `vcheck.py <id> --tier quick|thorough`, seed from VERIF_SEED, exit 0/1/2 "
                 "(2 = harness error, never a violation). Known findings: known_findings.txt.",
        "not_applicable": na,
    }
    path = os.path.join(HERE, "MANIFEST.json")
    with open(path, "w") as f:
        json.dump(man, f, indent=1)
        f.write("\n")
    try:
        sys.path.insert(0, "/opt/veriftools/pyvenv/lib/python3.11/site-packages")
        import jsonschema
        jsonschema.validate(man, json.load(open("/root/.vp/MANIFEST.schema.json")))
        print("MANIFEST.json valid;", len(checks), "checks,", len(na), "not_applicable")
    except ImportError:
        print("jsonschema not importable; wrote MANIFEST.json unvalidated")


if __name__ == "__main__":
    main()
