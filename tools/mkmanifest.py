#!/venv/bin/python -B
"""Regenerates MANIFEST.json from the table below and validates it against the schema."""
import json
import os
import sys

HERE = os.path.dirname(os.path.dirname(os.path.abspath(__file__)))
PY = "/venv/bin/python -B vcheck.py"

# id -> (technique, level text, level note, design ref)
CHECKS = {
    "C07": (
        "bounded-exhaustive enumeration + Hypothesis draws against an independent positional model",
        "Every integer below 253^3 and every byte string of length <= 3 is enumerated (quick); the "
        "thorough tier enumerates all 253^4 integers. Encode is compared with a positional model, "
        "decode with the documented formula, plus round trip and k-byte prefix. Exhaustive over the "
        "stated ranges, sampled (stratified + random) for 4-byte values in the quick tier.",
        "Trusted: the harness' positional model (pinned by the repository's 24 vectors).",
        "DESIGN.md 5/C07",
    ),
}

NOT_APPLICABLE = {}


def main():
    props = [json.loads(l) for l in open(os.path.join(HERE, "properties.jsonl")) if l.strip()]
    ids = [p["id"] for p in props]
    checks = []
    for pid in ids:
        if pid not in CHECKS:
            continue
        tech, text, note, ref = CHECKS[pid]
        checks.append({
            "property_id": pid,
            "quick_cmd": f"{PY} {pid} --tier quick",
            "thorough_cmd": f"{PY} {pid} --tier thorough",
            "evidence_file": f"/verif/evidence/{pid}.json",
            "replay_cmd_template": f"{PY} {pid} --replay {{path}}",
            "engine": "vcheck",
            "level_claimed": {"category": "exploration", "text": text, "design_ref": ref},
            "level_note": note,
            "technique": tech,
        })
    na = []
    for pid in ids:
        if pid not in CHECKS:
            na.append({"property_id": pid,
                       "reason": NOT_APPLICABLE.get(pid, "check not built yet (work in progress; "
                                                    "the technique applies, see DESIGN.md section 5)")})
    man = {
        "version": 1,
        "setup_cmd": "sh ./setup.sh",
        "hooks": {
            "guard": "CIRRAS_EOLIB_PYTHON_VERIF",
            "enable": "no instrumentation is needed: every observation point is public API; "
                      "checks load /repo's working tree directly (VERIF_REPO overrides the path)",
            "baseline_off_cmd": "cd /repo && /venv/bin/python -m pytest -ra -q -p no:cacheprovider "
                                "--timeout=900 --continue-on-collection-errors",
            "source_commits": [],
            "add_only": True,
        },
        "engines": [{
            "name": "vcheck",
            "path": "/verif/vcheck.py",
            "serves_properties": [c["property_id"] for c in checks],
            "kind_free_text": "Hypothesis 6.168 strategies / rule-based state machines, bounded-"
                              "exhaustive enumeration over 16 processes, explicit reference models",
        }],
        "checks": checks,
        "notes": "All checks: `vcheck.py <id> --tier quick|thorough`, seed from VERIF_SEED, exit 0/1/2 "
                 "(2 = harness error, never a violation). Known findings: known_findings.txt.",
        "not_applicable": na,
    }
    path = os.path.join(HERE, "MANIFEST.json")
    with open(path, "w") as f:
        json.dump(man, f, indent=1)
        f.write("\n")
    try:
        sys.path.insert(0, "/opt/veriftools/pyvenv/lib/python3.11/site-packages")
        import jsonschema
        jsonschema.validate(man, json.load(open("/root/.vp/MANIFEST.schema.json")))
        print("MANIFEST.json valid;", len(checks), "checks,", len(na), "not_applicable")
    except ImportError:
        print("jsonschema not importable; wrote MANIFEST.json unvalidated")


if __name__ == "__main__":
    main()
