import json, os, shutil, sys, glob
rnd, pattern, resdir = sys.argv[1], sys.argv[2], sys.argv[3]
for d in sorted(glob.glob(pattern)):
    id_ = os.path.basename(d)
    rj = os.path.join(resdir, id_ + ".json")
    if not os.path.exists(rj) or not os.path.exists(os.path.join(d, "patch.diff")):
        print("skip", id_); continue
    try:
        r = json.load(open(rj))
    except Exception:
        print("bad result", id_); continue
    ok = r.get("patch_applies") and r.get("tests_ok") and r.get("demo_ok")
    if not ok:
        print("NOT CONFIRMED", id_, {k: r.get(k) for k in ("patch_applies","tests","demo_with_change","demo_without_change")}); continue
    out = f"/verif/seeded/{rnd}-{id_}"
    os.makedirs(out, exist_ok=True)
    for f in ("patch.diff", "demo.py", "notes.md"):
        if os.path.exists(os.path.join(d, f)):
            shutil.copy(os.path.join(d, f), os.path.join(out, f))
    notes = open(os.path.join(d, "notes.md")).read() if os.path.exists(os.path.join(d, "notes.md")) else ""
    prop = id_.split("-")[0]
    meta = {
        "id": f"{rnd}-{id_}", "property": prop, "round": rnd,
        "origin": "independent sub-agent given only the property text and a scratch worktree",
        "needs_to_manifest": notes[:1500],
        "confirmed": {"patch_applies": True, "repo_tests_with_change": r.get("tests"),
                      "demo_exit_with_change": r.get("demo_with_change"),
                      "demo_exit_without_change": r.get("demo_without_change"),
                      "how": "tools/seedtest.py: scratch git worktree of /repo HEAD, git apply patch.diff, pytest with PYTHONPATH=<worktree>/src, demo.py with REPO=<worktree> and REPO=/repo, then vcheck.py <property> --tier quick with VERIF_REPO=<worktree>; worktree removed"},
        "checks": r.get("checks"),
    }
    json.dump(meta, open(os.path.join(out, "meta.json"), "w"), indent=1)
    print("imported", out, {k: v["detected"] for k, v in r.get("checks", {}).items()})
