#!/venv/bin/python -B
"""Re-runs every behaviour-preserving change under /verif/refactors against the checks named in its meta.json.
Every check must exit 0 (no VIOLATION, no harness error). Prints one line per change; exit 1 if any alarm."""
import json, os, subprocess, sys
HERE = os.path.dirname(os.path.dirname(os.path.abspath(__file__)))
ROOT = "/verif/refactors"
bad = 0
for name in sorted(os.listdir(ROOT)):
    d = os.path.join(ROOT, name)
    if not os.path.isfile(os.path.join(d, "patch.diff")):
        continue
    meta = json.load(open(os.path.join(d, "meta.json")))
    r = subprocess.run([os.path.join(HERE, "tools", "seedtest.py"), d] + meta["checks_that_must_stay_quiet"], capture_output=True, text=True)
    try:
        res = json.loads(r.stdout)
    except Exception:
        res = {"error": (r.stdout + r.stderr)[-300:]}
    alarms = {k: v.get("exit") for k, v in (res.get("checks") or {}).items() if v.get("exit") != 0}
    ok = res.get("tests_ok") and not alarms and not res.get("error")
    bad += 0 if ok else 1
    print(f"{name}: tests={'ok' if res.get('tests_ok') else 'FAIL'} {'quiet' if not alarms else 'ALARM ' + json.dumps(alarms)} {res.get('error') or ''}", flush=True)
sys.exit(1 if bad else 0)
