#!/venv/bin/python -B
"""Evaluate one seeded change: tools/seedtest.py <dir with patch.diff + demo.py> <Cxx> [<Cyy> ...]
Creates a scratch git worktree of /repo, applies the patch there, confirms (1) the repository's
tests still pass, (2) demo.py fails with the change and passes without it, then runs the named
checks (quick tier) against the scratch tree via VERIF_REPO. Removes the worktree afterwards.
Prints a JSON summary."""
import json, os, re, shutil, subprocess, sys, tempfile

HERE = os.path.dirname(os.path.dirname(os.path.abspath(__file__)))


def sh(cmd, **kw):
    return subprocess.run(cmd, capture_output=True, text=True, **kw)


def main():
    d = os.path.abspath(sys.argv[1])
    props = sys.argv[2:]
    tier = os.environ.get("SEED_TIER", "quick")
    wt = tempfile.mkdtemp(prefix="seed_wt_")
    os.rmdir(wt)
    out = {"dir": d, "checks": {}}
    try:
        r = sh(["git", "-C", "/repo", "worktree", "add", "--detach", wt, "HEAD", "-q"])
        assert r.returncode == 0, r.stderr
        r = sh(["git", "-C", wt, "apply", "--whitespace=nowarn", os.path.join(d, "patch.diff")])
        out["patch_applies"] = r.returncode == 0
        if r.returncode != 0:
            out["apply_error"] = r.stderr[-500:]
            print(json.dumps(out, indent=1))
            return 2
        r = sh(["/venv/bin/python", "-m", "pytest", "-q", "-p", "no:cacheprovider",
                "--continue-on-collection-errors"], cwd=wt, env=dict(os.environ, PYTHONPATH=os.path.join(wt, "src")))
        tail = r.stdout.strip().splitlines()[-1] if r.stdout.strip() else ""
        out["tests"] = tail
        out["tests_ok"] = bool(re.search(r"140 passed, 2 errors", tail))
        demo = os.path.join(d, "demo.py")
        if not os.path.exists(demo):
            # a behaviour-preserving change (tools/refactor round): nothing to demonstrate, the checks must stay quiet
            out["demo_ok"] = None
            demo = None
        r1 = demo and sh(["/venv/bin/python", "-B", demo], env=dict(os.environ, REPO=wt), cwd=tempfile.gettempdir())
        r0 = demo and sh(["/venv/bin/python", "-B", demo], env=dict(os.environ, REPO="/repo"), cwd=tempfile.gettempdir())
        if demo:
            out["demo_with_change"] = r1.returncode
            out["demo_without_change"] = r0.returncode
            out["demo_ok"] = r1.returncode == 1 and r0.returncode == 0
        if demo and not out["demo_ok"]:
            out["demo_output"] = (r1.stdout + r1.stderr)[-600:] + " || " + (r0.stdout + r0.stderr)[-600:]
        for p in props:
            r = sh([os.path.join(HERE, "vcheck.py"), p, "--tier", tier], env=dict(os.environ, VERIF_REPO=wt))
            clauses = [l.split(" ", 2)[1].rstrip(":") for l in r.stdout.splitlines() if l.startswith("violation ")]
            out["checks"][p] = {"exit": r.returncode, "detected": r.returncode == 1 and f"VIOLATION property={p}" in r.stdout,
                                "clauses": clauses[:4]}
            if r.returncode != 0 and (r.returncode == 2 or not demo):
                out["checks"][p]["tail"] = (r.stdout + r.stderr)[-1500:]
        print(json.dumps(out, indent=1))
        return 0
    finally:
        sh(["git", "-C", "/repo", "worktree", "remove", "--force", wt])
        shutil.rmtree(wt, ignore_errors=True)


if __name__ == "__main__":
    sys.exit(main())
