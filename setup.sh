#!/bin/sh
# Offline bootstrap: make sure hypothesis is importable by /venv/bin/python.
# Nothing is fetched from a network; the wheelhouse is on local disk.
set -e
cd "$(dirname "$0")"
if /venv/bin/python -c "import hypothesis" 2>/dev/null; then
    echo "setup: hypothesis already importable in /venv"
else
    echo "setup: installing hypothesis from the local wheelhouse into /verif/.deps"
    /venv/bin/python -m pip install --no-index --find-links /opt/veriftools/wheels \
        --target /verif/.deps hypothesis
fi
# atheris is optional (secondary engine of the thorough tier only)
if ! PYTHONPATH=/verif/.deps /venv/bin/python -c "import atheris" 2>/dev/null; then
    /venv/bin/python -m pip install --no-index --find-links /opt/veriftools/wheels \
        --target /verif/.deps atheris >/dev/null 2>&1 || echo "setup: atheris not installed (optional)"
fi
mkdir -p evidence replays
PYTHONPATH=/verif/.deps /venv/bin/python -B -c "import hypothesis; print('setup: hypothesis', hypothesis.__version__)"
