"""Shared plumbing for the checks that drive generated code (C01-C03, C15, C16, C19):
case strategies (tree x classes x objects), package cache per case, real (de)serialisation."""

from hypothesis import strategies as st

from . import genpkg, spec, specgen, valuegen
from .refinterp import Huge, Interp, Invalid, Unspecified


def class_key(c):
    return ".".join(c["path"])


def pick_classes(draw, an, classes, k):
    """k distinct class indices. Half of the time the first one is taken from the three classes with the most
    machinery in their bodies (arrays of structs, arrays without a length, switches, sections, length fields):
    a uniform choice spends most of the budget on classes with two integers in them."""
    idxs = draw(st.lists(st.integers(0, len(classes) - 1), min_size=k, max_size=k, unique=True))

    def score(c):
        s = 0
        for ins in spec.Analysis.flatten(c["body"]):
            t = ins["tag"]
            if t == "array":
                s += 2
                base = ins["type"].partition(":")[0]
                if base in an.types and an.types[base][0]["kind"] == "struct":
                    s += 3
                if ins.get("length") is None:
                    s += 2
            elif t in ("switch", "chunked"):
                s += 2
            elif t in ("length", "dummy", "break"):
                s += 1
            elif t == "field":
                base = (ins.get("type") or "").partition(":")[0]
                if base in an.types and an.types[base][0]["kind"] == "struct":
                    s += 2
        return s
    if len(classes) > k and draw(st.booleans()):
        top = sorted(range(len(classes)), key=lambda i: (-score(classes[i]), i))[:3]
        first = draw(st.sampled_from(top))
        if first not in idxs:
            idxs[0] = first
    return idxs


@st.composite
def tree_and_items(draw, features=None, n_classes=3, n_objects=3, value_kw=None, tree_kw=None,
                   with_mode=True, top_level_only=False):
    """-> {"tree": IR, "items": [{"cls": [path], "dir": d, "objs": [json...], "mode": bool}]}"""
    tree = draw(specgen.trees(features=features, **(tree_kw or {})))
    tree = dict(tree)
    excluded = tree.pop("_excluded", {})
    an = spec.Analysis(tree)
    classes = an.classes()
    if top_level_only:
        classes = [c for c in classes if len(c["path"]) == 1]
    items = []
    if classes:
        k = min(len(classes), n_classes)
        idxs = pick_classes(draw, an, classes, k)
        vg = valuegen.ValueGen(an, **(value_kw or {}))
        for i in idxs:
            c = classes[i]
            objs = [valuegen.to_json(vg.body(draw, c["body"])) for _ in range(n_objects)]
            items.append({"cls": c["path"], "dir": c["dir"], "objs": objs,
                          "mode": draw(st.booleans()) if with_mode else False})
    return {"tree": tree, "items": items, "excluded": excluded}


def find_class(an, path):
    for c in an.classes():
        if c["path"] == list(path):
            return c
    raise KeyError(path)


class Session:
    """One generated package for one case; closes cleanly."""

    def __init__(self, tree):
        self.tree = tree
        self.an = spec.Analysis(tree)
        self.pkg = genpkg.Package(tree)
        self.error = self.pkg.error
        self.import_error = None
        self.eolib = None
        if self.error is None:
            try:
                self.eolib = self.pkg.import_()
            except BaseException as e:  # noqa: reported by C18; others skip
                self.import_error = e
        self.builder = valuegen.Builder(self.pkg, self.an) if self.eolib else None

    @property
    def usable(self):
        return self.eolib is not None

    def cls(self, c):
        return self.pkg.cls(c["path"], c["dir"])

    def writer(self, mode=False):
        import sys
        w = sys.modules["eolib.data.eo_writer"].EoWriter()
        w.string_sanitization_mode = mode
        return w

    def reader(self, data, chunked=False):
        import sys
        r = sys.modules["eolib.data.eo_reader"].EoReader(data)
        if chunked:
            r.chunked_reading_mode = True
        return r

    def close(self):
        self.pkg.close()

    def __enter__(self):
        return self

    def __exit__(self, *a):
        self.close()


def xml_of(tree):
    """Compact rendering for replay files / samples: only files with declarations."""
    return {k: v for k, v in spec.render_tree(tree).items() if v.count("\n") > 3}
