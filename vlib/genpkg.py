"""spec tree -> scratch package -> imported modules (DESIGN 2.2, generated-package loader).

Nothing is ever written under /repo. The scratch root holds symlinks to the static half of
/repo/src/eolib plus the output of the real ProtocolCodeGenerator.
"""

import contextlib
import importlib
import io
import os
import shutil
import sys
import tempfile
from pathlib import Path

from .runner import REPO
from . import spec

SRC = os.path.join(REPO, "src")
_TMPBASE = None


def tmpbase():
    global _TMPBASE
    if _TMPBASE is None or not os.path.isdir(_TMPBASE):
        base = "/dev/shm" if os.path.isdir("/dev/shm") and os.access("/dev/shm", os.W_OK) else None
        _TMPBASE = tempfile.mkdtemp(prefix=f"vgen_{os.getpid()}_", dir=base)
    return _TMPBASE


def cleanup_tmpbase():
    global _TMPBASE
    if _TMPBASE and os.path.isdir(_TMPBASE):
        shutil.rmtree(_TMPBASE, ignore_errors=True)
    _TMPBASE = None


_gen_mod = None


def generator_module():
    """The real generator, imported from REPO (never from an installed copy)."""
    global _gen_mod
    if _gen_mod is None:
        for k in [k for k in sys.modules if k == "protocol_code_generator" or k.startswith("protocol_code_generator.")]:
            del sys.modules[k]
        sys.path.insert(0, REPO)
        try:
            _gen_mod = importlib.import_module("protocol_code_generator.generate.code_generator")
        finally:
            sys.path.remove(REPO)
        f = os.path.realpath(_gen_mod.__file__)
        if not f.startswith(os.path.realpath(REPO) + os.sep):
            raise RuntimeError(f"generator loaded from {f}")
    return _gen_mod


def write_xml(tree_or_files, root):
    files = tree_or_files if "files" not in tree_or_files else spec.render_tree(tree_or_files)
    for rel, text in files.items():
        p = os.path.join(root, rel)
        os.makedirs(os.path.dirname(p), exist_ok=True)
        with open(p, "w", encoding="utf-8") as f:
            f.write(text)


def run_generator(xml_root, out_root):
    """Runs the real generator; returns None on success or the exception it raised."""
    gm = generator_module()
    buf = io.StringIO()
    try:
        with contextlib.redirect_stdout(buf):
            gm.ProtocolCodeGenerator(Path(xml_root)).generate(Path(out_root))
    except Exception as e:  # the generator's way of rejecting a specification
        return e
    return None


def link_static(root):
    """Symlink every static file of REPO/src/eolib into root/eolib (directories are real)."""
    src_pkg = os.path.join(SRC, "eolib")
    for dirpath, dirnames, filenames in os.walk(src_pkg):
        dirnames[:] = [d for d in dirnames if d not in ("__pycache__", "_generated")]
        rel = os.path.relpath(dirpath, src_pkg)
        dst = os.path.join(root, "eolib") if rel == "." else os.path.join(root, "eolib", rel)
        os.makedirs(dst, exist_ok=True)
        for fn in filenames:
            if fn.endswith((".pyc",)):
                continue
            os.symlink(os.path.join(dirpath, fn), os.path.join(dst, fn))


class Package:
    """A generated package on disk; use as a context manager to import it in-process."""

    def __init__(self, tree, files=None):
        self.tree = tree
        self.root = tempfile.mkdtemp(prefix="pkg_", dir=tmpbase())
        self.xml_root = os.path.join(self.root, "xml")
        self.out_root = os.path.join(self.root, "eolib", "protocol", "_generated")
        link_static(self.root)
        write_xml(files if files is not None else tree, self.xml_root)
        self.error = run_generator(self.xml_root, self.out_root)
        self.eolib = None

    def generated_files(self):
        out = {}
        for dirpath, dirnames, filenames in os.walk(self.out_root):
            dirnames.sort()
            for fn in sorted(filenames):
                p = os.path.join(dirpath, fn)
                with open(p, "rb") as f:
                    out[os.path.relpath(p, self.out_root)] = f.read()
        return out

    def import_(self):
        purge()
        sys.path.insert(0, self.root)
        importlib.invalidate_caches()
        try:
            self.eolib = importlib.import_module("eolib")
        except BaseException:
            self.unimport()
            raise
        return self.eolib

    def unimport(self):
        purge()
        if self.root in sys.path:
            sys.path.remove(self.root)
        for k in [k for k in sys.path_importer_cache if k.startswith(self.root)]:
            del sys.path_importer_cache[k]
        self.eolib = None

    def close(self):
        self.unimport()
        shutil.rmtree(self.root, ignore_errors=True)

    def __enter__(self):
        return self

    def __exit__(self, *a):
        self.close()

    # -- access --------------------------------------------------------------
    def cls(self, path, dir_):
        """Class object for a class path, fetched from its defining generated module."""
        mod = sys.modules.get(spec.module_of(path[0], dir_)) or importlib.import_module(spec.module_of(path[0], dir_))
        obj = getattr(mod, path[0])
        for p in path[1:]:
            obj = getattr(obj, p)
        return obj

    def enum(self, name):
        an = spec.Analysis(self.tree)
        decl, dir_ = an.types[name]
        mod = importlib.import_module(spec.module_of(name, dir_))
        return getattr(mod, name)


def purge():
    for k in [k for k in sys.modules if k == "eolib" or k.startswith("eolib.")]:
        del sys.modules[k]
