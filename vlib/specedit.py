"""Rule-violating edits of valid specification trees (DESIGN 4.4 / 5-C17).

Every edit is a function (tree_copy, points, pick) -> placement label, or None when the tree has
no eligible location. `pick(seq)` draws one element (a Hypothesis draw). The edited tree must be
ill-formed by the grammar rule the edit names; it may additionally break other rules only where
noted (soundness needs "ill-formed", cleanliness helps sensitivity).
"""

import copy

from . import spec


class Point:
    """An insertion point inside a class body: between instructions of `lst` at `idx`."""

    def __init__(self, **kw):
        self.__dict__.update(kw)

    @property
    def placement(self):
        p = "case" if self.in_case else "top"
        if self.lex:
            p += "-in-chunk"
        return f"{p}@{self.dir or 'root'}"


def walk_points(tree):
    """-> (points, instrs): all insertion points and all instructions with their context."""
    pts, instrs = [], []
    for d in spec.DIRS:
        for decl in tree["files"].get(d, []):
            if decl["kind"] == "enum":
                continue
            _walk_scope(decl["body"], d, decl, False, False, False, pts, instrs, depth=0)
    return pts, instrs


def _walk_scope(body, dir_, decl, lex, in_case, opt_in, pts, instrs, depth):
    st = {"opt": opt_in, "names": {}, "lengths": {}, "dummy": False, "scope": body}
    _walk_list(body, dir_, decl, lex, in_case, st, pts, instrs, depth)
    return st


def _walk_list(lst, dir_, decl, lex, in_case, st, pts, instrs, depth):
    def point(i):
        pts.append(Point(lst=lst, idx=i, dir=dir_, decl=decl, lex=lex, in_case=in_case, opt=st["opt"],
                         names=dict(st["names"]), lengths=dict(st["lengths"]), dummy=st["dummy"],
                         scope=st["scope"], depth=depth))
    point(0)
    for i, ins in enumerate(lst):
        t = ins["tag"]
        instrs.append(Point(ins=ins, lst=lst, idx=i, dir=dir_, decl=decl, lex=lex, in_case=in_case,
                            opt_before=st["opt"], names=dict(st["names"]), lengths=dict(st["lengths"]),
                            scope=st["scope"], depth=depth))
        if t in ("field", "array", "length"):
            if ins.get("name") is not None:
                st["names"][ins["name"]] = ins
            if ins.get("optional"):
                st["opt"] = True
            if t == "length":
                st["lengths"][ins["name"]] = False
            ln = ins.get("length")
            if ln is not None and ln in st["lengths"]:
                st["lengths"][ln] = True
        elif t == "dummy":
            st["dummy"] = True
        elif t == "break":
            st["opt"] = False
            st["dummy"] = False
        elif t == "chunked":
            _walk_list(ins["body"], dir_, decl, True, in_case, st, pts, instrs, depth + 1)
        elif t == "switch":
            any_opt = any_dummy = False
            for c in ins["cases"]:
                sub = _walk_scope(c["body"], dir_, decl, lex, True, st["opt"], pts, instrs, depth + 1)
                any_opt = any_opt or sub["opt"]
                any_dummy = any_dummy or sub["dummy"]
            st["opt"] = st["opt"] or any_opt
            st["dummy"] = st["dummy"] or any_dummy
        point(i + 1)


def _fresh(names, base="zz"):
    n = base
    k = 1
    while n in names:
        n = f"{base}{k}"
        k += 1
    return n


def _all_names(p):
    """Names visible anywhere in the scope (not only before the point)."""
    out = set()
    for ins in spec.Analysis.flatten_noswitch(p.scope):
        if ins.get("name"):
            out.add(ins["name"])
    return out


def _plain_field(p, typ="char", **kw):
    f = {"tag": "field", "name": _fresh(_all_names(p)), "type": typ}
    if p.opt:
        f["optional"] = True
    f.update(kw)
    return f


def _clean(pts):
    """Points where inserting a well-formed required/optional member would itself be fine."""
    return [p for p in pts if not p.dummy]


def _types(tree, kind):
    return [(d, x) for d in spec.DIRS for x in tree["files"].get(d, []) if x["kind"] == kind]


# --------------------------------------------------------------------------------- the catalogue

def e01_redefined_type(tree, pts, ins, pick):
    decls = _types(tree, "enum") + _types(tree, "struct")
    if pick([0, 1, 2, 3]) == 0:
        # a declaration that takes the name of a built-in type of the format
        nm = pick(list(spec.BASIC))
        target = pick([""] + list(spec.DIRS))
        if pick([0, 1]):
            decl = {"kind": "struct", "name": nm, "body": [{"tag": "field", "name": "a", "type": "short"}]}
        else:
            decl = {"kind": "enum", "name": nm, "type": "short", "values": [{"name": "A", "ord": 1}]}
        tree["files"].setdefault(target, []).insert(0 if pick([0, 1]) else len(tree["files"].get(target, [])), decl)
        return "builtin_name"
    d, x = pick(decls)
    target = pick(list(spec.DIRS))
    tree["files"][target].append({"kind": "struct", "name": x["name"],
                                  "body": [{"tag": "field", "name": "a", "type": "char"}]})
    return "same-file" if target == d else "other-file"


def e01b_redefined_packet(tree, pts, ins, pick):
    pk = _types(tree, "packet")
    if not pk:
        return None
    d, x = pick(pk)
    tree["files"][d].append({"kind": "packet", "family": x["family"], "action": x["action"], "body": []})
    return d


def e02_unknown_type(tree, pts, ins, pick):
    c = [i for i in ins if i.ins["tag"] in ("field", "array", "length", "dummy")]
    if not c:
        return None
    i = pick(c)
    i.ins["type"] = pick(["Nonexistent", "Nonexistent:char", "chr", "String"])
    i.ins.pop("length", None) if i.ins["tag"] == "field" else None
    return i.ins["tag"] + ":" + Point.placement.fget(i)


def e03_redefined_member(tree, pts, ins, pick):
    c = [i for i in ins if i.ins["tag"] in ("field", "array", "length") and i.ins.get("name")]
    if not c:
        return None
    i = pick(c)
    kind = pick(["field", "array", "length"])
    opt = bool(i.ins.get("optional"))
    if kind == "field":
        new = {"tag": "field", "name": i.ins["name"], "type": "char"}
    elif kind == "array":
        new = {"tag": "array", "name": i.ins["name"], "type": "char", "length": "1"}
    else:
        # a length field needs a referencing member to be otherwise well-formed
        new = {"tag": "length", "name": i.ins["name"], "type": "char"}
    if opt:
        new["optional"] = True
    i.lst.insert(i.idx + 1, new)
    if kind == "length":
        ref = {"tag": "field", "name": _fresh({x.ins.get("name") for x in ins if x.scope is i.scope} | {i.ins["name"]}),
               "type": "string", "length": i.ins["name"]}
        if opt:
            ref["optional"] = True
        # only if the original is not itself a referenced length (then this is a second reference: also ill-formed)
        i.lst.insert(i.idx + 2, ref)
    return f"{i.ins['tag']}+{kind}:" + Point.placement.fget(i)


def e04_bad_length_reference(tree, pts, ins, pick):
    mode = pick(["unknown", "non_length_field", "enclosing_scope"])
    if mode == "unknown":
        c = _clean(pts)
        if not c:
            return None
        p = pick(c)
        p.lst.insert(p.idx, _plain_field(p, "string", length="no_such_len"))
        return "unknown:" + p.placement
    if mode == "non_length_field":
        c = [p for p in _clean(pts) if any(v["tag"] != "length" for v in p.names.values())]
        if not c:
            return None
        p = pick(c)
        target = pick([k for k, v in p.names.items() if v["tag"] != "length"])
        p.lst.insert(p.idx, _plain_field(p, "string", length=target))
        return "non_length_field:" + p.placement
    # a length field of the enclosing body referenced from inside a case
    c = []
    for i in ins:
        if i.ins["tag"] == "switch" and i.lengths:
            for case in i.ins["cases"]:
                c.append((i, case))
    if not c:
        return None
    i, case = pick(c)
    ln = pick(list(i.lengths))
    f = {"tag": "field", "name": _fresh({x.get("name") for x in spec.Analysis.flatten_noswitch(case["body"])}),
         "type": "string", "length": ln}
    if i.opt_before:
        f["optional"] = True
    case["body"].insert(0, f)
    return "enclosing_scope:" + Point.placement.fget(i)


def e05_second_length_reference(tree, pts, ins, pick):
    if pick([0, 1, 2, 3]) == 0:
        # both references are new; the FIRST one is an unnamed hardcoded string
        c0 = [p for p in _clean(pts) if not p.opt]
        if c0:
            p = pick(c0)
            names = _all_names(p)
            ln = _fresh(names, "zlen")
            p.lst[p.idx:p.idx] = [{"tag": "length", "name": ln, "type": "char"},
                                  {"tag": "field", "name": None, "type": "string", "length": ln, "value": "abc"},
                                  {"tag": "field", "name": _fresh(names | {ln}, "zstr"), "type": "string", "length": ln}]
            return "first_reference_unnamed:" + p.placement
    c = [p for p in _clean(pts) if any(p.lengths.values())]
    if not c:
        return None
    p = pick(c)
    ln = pick([k for k, v in p.lengths.items() if v])
    kind = pick(["field", "array"])
    if kind == "field":
        p.lst.insert(p.idx, _plain_field(p, "string", length=ln))
    else:
        a = {"tag": "array", "name": _fresh(_all_names(p)), "type": "char", "length": ln}
        if p.opt:
            a["optional"] = True
        p.lst.insert(p.idx, a)
    return kind + ":" + p.placement


def e06_delimited_outside_chunk(tree, pts, ins, pick):
    mode = pick(["flip", "insert"])
    if mode == "flip":
        c = [i for i in ins if i.ins["tag"] == "array" and not i.lex and not i.ins.get("delimited")]
        if c:
            i = pick(c)
            i.ins["delimited"] = True
            return "flip:" + Point.placement.fget(i)
    c = [p for p in _clean(pts) if not p.lex]
    if not c:
        return None
    p = pick(c)
    a = {"tag": "array", "name": _fresh(_all_names(p)), "type": "char", "delimited": True}
    if p.opt:
        a["optional"] = True
    p.lst.insert(p.idx, a)
    return "insert:" + p.placement


def e07_break_outside_chunk(tree, pts, ins, pick):
    c = [p for p in pts if not p.lex]
    if not c:
        return None
    p = pick(c)
    p.lst.insert(p.idx, {"tag": "break"})
    return p.placement + (":used-in-chunk" if p.decl["kind"] == "struct" else "")


def _switch_then_follower(p, pick, case_body, follower):
    """Constructs: <field zz/> <switch field=zz> <case 1>case_body</case> <case 2/> [<case default/>] </switch>
    follower - at a clean point of a body. The offending state is reached only through a NON-LAST case."""
    names = _all_names(p)
    sw = _fresh(names, "zsw")
    cases = [{"value": "1", "body": case_body}, {"value": "2", "body": []}]
    if pick([True, False]):
        cases.append({"default": True, "body": []})
    if pick([True, False]):
        cases.insert(0, {"value": "7", "body": []})
    new = [{"tag": "field", "name": sw, "type": pick(["char", "short"])},
           {"tag": "switch", "field": sw, "cases": cases}, follower]
    p.lst[p.idx:p.idx] = new


def e08_required_after_optional(tree, pts, ins, pick):
    if pick([0, 1, 2]) == 0:
        c0 = [p for p in _clean(pts) if not p.opt and p.idx == len(p.lst)]
        if c0:
            p = pick(c0)
            names = _all_names(p)
            follower = {"tag": "field", "name": _fresh(names, "zreq"), "type": "char"}
            if pick([0, 1, 2]) == 0:
                follower = {"tag": "field", "name": None, "type": "char", "value": "5"}   # unnamed constant: required too
            _switch_then_follower(p, pick, [{"tag": "field", "name": "zo", "type": "char", "optional": True}], follower)
            return "via_nonlast_case:" + p.placement
    c = [p for p in _clean(pts) if p.opt]
    if not c:
        return None
    inherited = [p for p in c if p.idx == 0 and p.in_case]
    # the first instruction of a case body that follows an optional member of the ENCLOSING body
    p = pick(inherited) if inherited and pick([0, 1, 2]) == 0 else pick(c)
    kind = pick(["field", "array", "length", "hardcoded_unnamed", "hardcoded_named"])
    nm = _fresh(_all_names(p))
    if kind == "hardcoded_unnamed":
        # a constant is written unconditionally: it is a required member like any other
        p.lst.insert(p.idx, {"tag": "field", "name": None, "type": pick(["char", "short", "string"]), "value": "7"})
    elif kind == "hardcoded_named":
        p.lst.insert(p.idx, {"tag": "field", "name": nm, "type": pick(["char", "short"]), "value": "7"})
    elif kind == "field":
        p.lst.insert(p.idx, {"tag": "field", "name": nm, "type": "char"})
    elif kind == "array":
        p.lst.insert(p.idx, {"tag": "array", "name": nm, "type": "char", "length": "2"})
    else:
        p.lst.insert(p.idx, {"tag": "length", "name": nm, "type": "char"})
        p.lst.insert(p.idx + 1, {"tag": "field", "name": _fresh(_all_names(p) | {nm}), "type": "string",
                                 "length": nm, "optional": True})
    return kind + ":" + p.placement + (":inherited" if p.idx == 0 and p.in_case else "")


def e09_after_dummy(tree, pts, ins, pick):
    if pick([0, 1, 2]) == 0:
        c0 = [p for p in _clean(pts) if not p.opt and p.idx == len(p.lst)]
        if c0:
            p = pick(c0)
            follower = {"tag": "field", "name": _fresh(_all_names(p), "zaft"), "type": "char"}
            _switch_then_follower(p, pick, [{"tag": "dummy", "type": "char", "value": "0"}], follower)
            return "via_nonlast_case:" + p.placement
    if pick([0, 1, 2, 3]) == 0:
        # the dummy closes a <chunked> section of its own; the follower comes after </chunked>
        roots = [p for p in pts if p.idx == len(p.lst) and not p.opt and p.depth == 0 and not p.dummy and not p.lex]
        if roots:
            p = pick(roots)
            names = _all_names(p)
            p.lst.append({"tag": "chunked", "body": [{"tag": "field", "name": _fresh(names, "zc"), "type": "char"},
                                                      {"tag": "dummy", "type": "char", "value": "0"}]})
            p.lst.append({"tag": "field", "name": _fresh(names | {"zc"}, "zaft"), "type": "char"})
            return "after_closed_chunk:" + p.placement
    c = [p for p in pts if p.dummy]
    if not c:
        # create the situation: append a dummy and a follower at the end of a body
        roots = [p for p in pts if p.idx == len(p.lst) and not p.opt and p.depth == 0 and not p.dummy]
        if not roots:
            return None
        p = pick(roots)
        p.lst.append({"tag": "dummy", "type": "char", "value": "0"})
        p.lst.append(pick([{"tag": "field", "name": _fresh(_all_names(p)), "type": "char"},
                           {"tag": "dummy", "type": "char", "value": "1"}]))
        return "created:" + p.placement
    p = pick(c)
    if p.lex and pick([0, 1, 2]) == 0:
        # the dummy is directly followed by <break/> (which must itself be refused) and then more
        p.lst.insert(p.idx, {"tag": "break"})
        p.lst.insert(p.idx + 1, {"tag": "field", "name": _fresh(_all_names(p), "zaft"), "type": "char"})
        return "break_then_field:" + p.placement
    follower = pick(["field", "dummy", "chunked", "switchless"])
    if follower == "field" or follower == "switchless":
        p.lst.insert(p.idx, _plain_field(p))
    elif follower == "dummy":
        p.lst.insert(p.idx, {"tag": "dummy", "type": "char", "value": "1"})
    else:
        p.lst.insert(p.idx, {"tag": "chunked", "body": [_plain_field(p)]})
    return follower + ":" + p.placement


def e10_unnamed_without_value(tree, pts, ins, pick):
    c = _clean(pts)
    if not c:
        return None
    p = pick(c)
    p.lst.insert(p.idx, {"tag": "field", "name": None, "type": pick(["char", "string", "bool"])})
    return p.placement


def e11_bad_hardcoded(tree, pts, ins, pick):
    c = [p for p in _clean(pts) if not p.opt]
    if not c:
        return None
    p = pick(c)
    an = spec.Analysis(tree)
    mode = pick(["int_text", "bool_text", "enum", "struct", "blob", "wrong_len",
                 "named_int_text", "named_bool_text"])
    nm = _fresh(_all_names(p))
    if mode == "int_text":
        p.lst.insert(p.idx, {"tag": "field", "name": None, "type": pick(list(spec.INT_TYPES)), "value": pick(["abc", "1x", "-1", "1.5", "+7", "1_000", "0x10"])})
    elif mode == "bool_text":
        p.lst.insert(p.idx, {"tag": "field", "name": None, "type": "bool", "value": pick(["yes", "1", "True"])})
    elif mode == "named_int_text":
        p.lst.insert(p.idx, {"tag": "field", "name": nm, "type": pick(list(spec.INT_TYPES)),
                             "value": pick(["abc", "1x", "1.5", "-1", "+7", "1_000", "0x10", "1e3"])})
    elif mode == "named_bool_text":
        p.lst.insert(p.idx, {"tag": "field", "name": nm, "type": "bool", "value": pick(["yes", "1", "True"])})
    elif mode in ("enum", "struct"):
        from .specgen import LAYER
        vis = [x["name"] for (d, x) in _types(tree, mode) if LAYER[d] <= LAYER[p.dir]
               and x is not p.decl and not _uses(an, x, p.decl)]
        if not vis:
            return None
        p.lst.insert(p.idx, {"tag": "field", "name": nm, "type": pick(vis), "value": "1"})
    elif mode == "blob":
        p.lst.insert(p.idx, {"tag": "field", "name": nm, "type": "blob", "value": "abc"})
    elif pick([0, 1, 2]) == 0:
        # the length counts characters as written: a base letter and a combining mark are two of them,
        # the Angstrom sign is not the letter it normalises to
        txt, ln = pick([("cafe\u0301", "4"), ("e\u0301", "1"), ("A\u030a", "1"), ("\u1e9b\u0323x", "2")])
        p.lst.insert(p.idx, {"tag": "field", "name": pick([None, nm]), "type": pick(["string", "encoded_string"]),
                             "length": ln, "value": txt})
        mode = "wrong_len_combining"
    elif pick([True, False]):
        # a literal shorter than the declared length is just as wrong - padded or not
        p.lst.insert(p.idx, {"tag": "field", "name": pick([None, nm]), "type": pick(["string", "encoded_string"]),
                             "length": pick(["4", "6"]), "padded": pick([True, True, None]), "value": pick(["ab", "x"])})
    else:
        p.lst.insert(p.idx, {"tag": "field", "name": pick([None, nm]), "type": "string", "length": "3", "value": "abcd"})
    return mode + ":" + p.placement


def _uses(an, x, target):
    """True if declaration x (a struct) references `target` directly or indirectly (avoid recursion)."""
    if x["kind"] != "struct" or target["kind"] != "struct":
        return False
    seen = set()

    def rec(d):
        if d is target:
            return True
        if id(d) in seen:
            return False
        seen.add(id(d))
        for i in spec.Analysis.flatten(d["body"]):
            base = i.get("type", "").partition(":")[0]
            if base in an.types and an.types[base][0]["kind"] == "struct" and rec(an.types[base][0]):
                return True
        return False
    return rec(x)


def e12_length_on_non_string(tree, pts, ins, pick):
    an = spec.Analysis(tree)
    if pick([0, 1, 2]) == 0:
        # the length names a (fresh, otherwise unreferenced) length field instead of being a literal
        c0 = [p for p in _clean(pts) if not p.opt]
        if c0:
            p = pick(c0)
            names = _all_names(p)
            ln = _fresh(names, "zlen")
            p.lst.insert(p.idx, {"tag": "length", "name": ln, "type": "char"})
            p.lst.insert(p.idx + 1, {"tag": "field", "name": _fresh(names | {ln}, "znum"),
                                     "type": pick(["short", "char", "int", "bool", "blob"]), "length": ln})
            return "length_field_ref:" + p.decl["kind"] + ":" + p.placement
    c = [i for i in ins if i.ins["tag"] == "field" and i.ins.get("length") is None
         and an.resolve(i.ins["type"])["kind"] != "string"]
    if not c:
        return None
    i = pick(c)
    i.ins["length"] = pick(["1", "2", "0"])
    return an.resolve(i.ins["type"])["kind"] + ":" + Point.placement.fget(i)


def e13_bad_enum(tree, pts, ins, pick):
    enums = _types(tree, "enum")
    d, e = pick(enums)
    mode = pick(["text", "dup_ordinal", "dup_ordinal", "dup_ordinal", "dup_name", "non_numeric_type", "self_type", "missing_type",
                 "field_enum_string", "field_abc", "override_on_int", "override_on_struct", "override_self"])
    if mode == "text":
        e["values"].append({"name": "Zzz", "ord": 0, "text": pick(["abc", "1x", "", "0x10"])})
    elif mode in ("dup_ordinal", "dup_name"):
        with_values = [(dd, x) for (dd, x) in enums if x["values"]]
        d, e = pick(with_values)          # PacketFamily / PacketAction always have values
        if mode == "dup_ordinal":
            o = pick(e["values"])["ord"]
            v = {"name": "Zzz", "ord": o}
            sp = pick(["zero", "plus", "same", "group"])
            if sp == "zero":
                v["text"] = "0" + str(o)          # the same ordinal, spelled differently
            elif sp == "plus":
                v["text"] = "+" + str(o)
            elif sp == "group" and o >= 10:
                v["text"] = str(o)[0] + "_" + str(o)[1:]
            if "text" in v:
                mode = "dup_ordinal_respelled"
            e["values"].append(v)
        else:
            e["values"].append({"name": e["values"][0]["name"], "ord": max(v["ord"] for v in e["values"]) + 1})
    elif mode == "non_numeric_type":
        if pick([0, 1, 2]) == 0:
            # an enum without members still needs a numeric underlying type
            structs = [x["name"] for (dd, x) in _types(tree, "struct") if dd == ""]
            bad = pick(["string", "bool", "blob"] + structs[:1])
            tree["files"].setdefault("", []).append({"kind": "enum", "name": "ZzPlaceholder", "type": bad, "values": []})
            return "non_numeric_type_memberless@root"
        e["type"] = pick(["string", "bool", "blob", "Nonexistent"])
    elif mode == "self_type":
        e["type"] = e["name"]
    elif mode == "missing_type":
        e["type"] = None
    else:
        c = [p for p in _clean(pts) if not p.opt]
        if not c:
            return None
        p = pick(c)
        from .specgen import LAYER
        nm = _fresh(_all_names(p))
        vis = [x["name"] for (dd, x) in enums if LAYER[dd] <= LAYER[p.dir]]
        if mode == "field_enum_string":
            if not vis:
                return None
            t = pick(vis) + ":" + pick(["string", "bool", "blob"])
        elif mode == "field_abc":
            t = (pick(vis) if vis else "bool") + ":char:short"
        elif mode == "override_on_int":
            t = pick(["char:short", "int:char", "string:char", "blob:char"])
        elif mode == "override_self":
            t = "bool:bool"
        else:
            an = spec.Analysis(tree)
            sv = [x["name"] for (dd, x) in _types(tree, "struct") if LAYER[dd] <= LAYER[p.dir]
                  and x is not p.decl and not _uses(an, x, p.decl)]
            if not sv:
                return None
            t = pick(sv) + ":char"
        p.lst.insert(p.idx, {"tag": "field", "name": nm, "type": t})
        return mode + ":" + p.placement
    return mode + "@" + (d or "root")


def e14_bad_switch(tree, pts, ins, pick):
    an = spec.Analysis(tree)
    mode = pick(["unknown_field", "array", "non_numeric_member", "bad_int_value", "unknown_enum_name",
                 "declared_ordinal_as_number"])
    if mode in ("unknown_field", "array", "non_numeric_member"):
        c = [p for p in pts if not p.dummy]
        if not c:
            return None
        p = pick(c)
        if mode == "unknown_field":
            fld = "no_such_field"
        else:
            want = (lambda v: v["tag"] == "array") if mode == "array" else \
                (lambda v: v["tag"] == "field" and an.resolve(v["type"])["kind"] in ("string", "bool", "struct", "blob"))
            names = [k for k, v in p.names.items() if want(v) and not _switched(p.scope, k)]
            if not names:
                return None
            fld = pick(names)
        p.lst.insert(p.idx, {"tag": "switch", "field": fld, "cases": [{"value": "1", "body": []}]})
        return mode + ":" + p.placement
    sw = [i for i in ins if i.ins["tag"] == "switch"]
    if not sw:
        return None
    i = pick(sw)
    fins = spec.body_find(i.scope, i.ins["field"])
    r = an.resolve(fins["type"])
    cases = [c for c in i.ins["cases"] if not c.get("default")]
    case = pick(cases)
    if mode == "bad_int_value":
        if r["kind"] != "int":
            return None
        case["value"] = pick(["abc", "-1", "1.5", "Red"])
    elif mode == "unknown_enum_name":
        if r["kind"] != "enum":
            return None
        case["value"] = "NoSuchMember"
    else:
        if r["kind"] != "enum":
            return None
        used = {c.get("value") for c in i.ins["cases"]}
        cand = [str(v["ord"]) for v in r["decl"]["values"]]
        if not cand:
            return None         # an enum without values has no declared ordinal to misuse
        case["value"] = pick(cand)
    return mode + ":" + Point.placement.fget(i)


def _switched(scope, name):
    return any(i["tag"] == "switch" and i["field"] == name for i in spec.Analysis.flatten_noswitch(scope))


def e15_default_first(tree, pts, ins, pick):
    sw = [i for i in ins if i.ins["tag"] == "switch"]
    mode = "existing" if sw and pick([True, False]) else "insert"
    if mode == "existing":
        i = pick(sw)
        first = i.ins["cases"][0]
        first.pop("value", None)
        first["default"] = True
        # at most one default: demote any later default to a plain value
        for k, c in enumerate(i.ins["cases"][1:]):
            if c.get("default"):
                c.pop("default")
                c["value"] = str(900 + k)
        return "existing:" + Point.placement.fget(i)
    an = spec.Analysis(tree)
    c = [p for p in pts if not p.dummy and any(
        v["tag"] == "field" and an.resolve(v["type"])["kind"] == "int" and not _switched(p.scope, k)
        for k, v in p.names.items())]
    if not c:
        return None
    p = pick(c)
    fld = pick([k for k, v in p.names.items() if v["tag"] == "field"
                and an.resolve(v["type"])["kind"] == "int" and not _switched(p.scope, k)])
    p.lst.insert(p.idx, {"tag": "switch", "field": fld, "cases": [{"default": True, "body": []}]})
    return "insert:" + p.placement


def e16_unknown_packet_family_action(tree, pts, ins, pick):
    pk = _types(tree, "packet")
    which = pick(["family", "action"])
    fam_e = next(x for (_, x) in _types(tree, "enum") if x["name"] == "PacketFamily")
    act_e = next(x for (_, x) in _types(tree, "enum") if x["name"] == "PacketAction")
    fam_names = {v["name"] for v in fam_e["values"]}
    act_names = {v["name"] for v in act_e["values"]}
    # a name that exists - but only in the OTHER enum (packets declared earlier may have used it there)
    only_other = sorted((fam_names - act_names) if which == "action" else (act_names - fam_names))
    bad = pick(only_other) if only_other and pick([True, False]) else "NoSuchMember"
    if pk and pick([True, False]):
        # append a further packet after the existing ones, so that earlier packets were processed first
        d, x = pick(pk)
        pkt = {"kind": "packet", "family": x["family"], "action": x["action"], "body": []}
        pkt[which] = bad
        tree["files"][d].append(pkt)
        return which + ":after_existing@" + d
    if pk and pick([True, False]):
        d, x = pick(pk)
        x[which] = bad
        return which + ":existing@" + d
    d = pick(["net/client", "net/server"])
    fam = next(x for (_, x) in _types(tree, "enum") if x["name"] == "PacketFamily")
    act = next(x for (_, x) in _types(tree, "enum") if x["name"] == "PacketAction")
    pkt = {"kind": "packet", "family": fam["values"][0]["name"], "action": act["values"][0]["name"], "body": []}
    pkt[which] = bad
    tree["files"][d].append(pkt)
    return which + ":new@" + d


CATALOGUE = [
    ("01_redefined_type", e01_redefined_type), ("01_redefined_packet", e01b_redefined_packet),
    ("02_unknown_type", e02_unknown_type), ("03_redefined_member", e03_redefined_member),
    ("04_bad_length_reference", e04_bad_length_reference),
    ("05_second_length_reference", e05_second_length_reference),
    ("06_delimited_outside_chunk", e06_delimited_outside_chunk),
    ("07_break_outside_chunk", e07_break_outside_chunk),
    ("08_required_after_optional", e08_required_after_optional),
    ("09_after_dummy", e09_after_dummy), ("10_unnamed_without_value", e10_unnamed_without_value),
    ("11_bad_hardcoded", e11_bad_hardcoded), ("12_length_on_non_string", e12_length_on_non_string),
    ("13_bad_enum", e13_bad_enum), ("14_bad_switch", e14_bad_switch),
    ("15_default_first", e15_default_first), ("16_unknown_packet_family_action", e16_unknown_packet_family_action),
]
BY_NAME = dict(CATALOGUE)


def apply_edit(tree, name, pick):
    """-> (edited tree, placement) or (None, None)."""
    t = copy.deepcopy(tree)
    pts, ins = walk_points(t)
    placement = BY_NAME[name](t, pts, ins, pick)
    if placement is None:
        return None, None
    return t, placement
