"""Hypothesis driver with deterministic seeding and a bounded shrink phase.

`campaign(strategy, oracle, n, seed, res, shrink_budget)` runs `oracle(case)` on `n` generated
cases. `oracle` raises runner.Violation for a counterexample. After the first failure the
shrinker is allowed `shrink_budget` further oracle calls; the smallest failing case seen so
far (Hypothesis only ever accepts smaller ones, so it is the last failing one) is reported.
Every other exception is a harness error and propagates.
"""

import hypothesis
from hypothesis import HealthCheck, Phase, given, settings
from hypothesis.errors import Flaky, FlakyFailure  # type: ignore

from .runner import Violation


class _Stop(Exception):
    pass


def mk_settings(n, shrink=True, stateful_steps=None):
    kw = dict(
        max_examples=n,
        database=None,
        deadline=None,
        derandomize=False,
        report_multiple_bugs=False,
        suppress_health_check=list(HealthCheck),
        phases=(Phase.generate, Phase.shrink) if shrink else (Phase.generate,),
        print_blob=False,
    )
    if stateful_steps is not None:
        kw["stateful_step_count"] = stateful_steps
    return settings(**kw)


def campaign(strategy, oracle, n, seed, res, shrink_budget=300):
    """Returns the Violation found (already recorded in res) or None."""
    state = {"fail": None, "after": 0, "calls": 0}

    def wrapped(case):
        if state["fail"] is not None:
            state["after"] += 1
            if state["after"] > shrink_budget:
                return  # let the shrinker converge quickly
        try:
            oracle(case)
        except Violation as v:
            state["fail"] = v
            raise
        finally:
            state["calls"] += 1

    test = hypothesis.seed(seed)(mk_settings(n)(given(strategy)(wrapped)))
    try:
        test()
    except Violation:
        pass
    except (Flaky, FlakyFailure):
        if state["fail"] is None:
            raise
    except BaseException as e:
        # ExceptionGroup wrappers etc.
        if state["fail"] is None:
            raise
    v = state["fail"]
    if v is not None:
        res.violation(v)
    return v


def machine_campaign(machine_cls, n, steps, seed, res, shrink_budget=300):
    """Run a RuleBasedStateMachine class. The machine records violations by raising
    Violation from rules/invariants."""
    from hypothesis.stateful import run_state_machine_as_test

    state = {"fail": None}
    orig = getattr(machine_cls, "_on_violation", None)

    def hook(v):
        state["fail"] = v

    machine_cls._on_violation = staticmethod(hook)
    try:
        run_state_machine_as_test(
            hypothesis.seed(seed)(machine_cls), settings=mk_settings(n, stateful_steps=steps)
        )
    except Violation as v:
        if state["fail"] is None:
            state["fail"] = v
    except (Flaky, FlakyFailure):
        if state["fail"] is None:
            raise
    except BaseException:
        if state["fail"] is None:
            raise
    finally:
        if orig is not None:
            machine_cls._on_violation = orig
    v = state["fail"]
    if v is not None:
        res.violation(v)
    return v
