"""Declaration-violating edits of valid object trees (DESIGN 5/C16)."""

import copy

from . import spec
from .refinterp import Interp, max_value_of
from .spec import INT_LIMIT


def sites(an, body, obj, path=()):
    """Yields (kind, path, info) edit sites. path = tuple of keys/indices into the object tree."""
    out = []
    ip = Interp(an)
    for name, ins, kind in spec.body_members(body):
        v = obj.get(name)
        p = path + (name,)
        if kind == "case_data":
            sw = ins
            fins = spec.body_find(body, sw["field"])
            if fins["tag"] == "length":
                fv = None
                for i2 in spec.Analysis.flatten_noswitch(body):
                    if i2["tag"] in ("field", "array") and i2.get("length") == fins["name"]:
                        vv = obj.get(i2["name"])
                        fv = len(vv) if vv is not None else 0
            elif fins.get("value") is not None:
                from .refinterp import hard_value
                fv = hard_value(an.resolve(fins["type"]), fins["value"])
            else:
                fv = obj.get(fins["name"])
            case = ip.select_case(sw, fins, fv)
            nonempty = [c for c in sw["cases"] if c["body"]]
            if case is not None:
                if case["body"]:
                    out.append(("case_none", p, None))
                    out.append(("case_impostor", p, spec.case_class_name(sw, case)))
                    sib = [c for c in nonempty if c is not case]
                    if sib:
                        out.append(("case_sibling", p, (sw, sib)))
                    if isinstance(v, dict):
                        out += sites(an, case["body"], v, p)
                else:
                    out.append(("case_falsy_for_empty", p, None))
                    if nonempty:
                        out.append(("case_for_empty", p, (sw, nonempty)))
            continue
        if kind == "field":
            if ins.get("value") is not None:
                continue
            r = an.resolve(ins["type"])
            ln = ins.get("length")
            governed = ln is not None and not ln.isdigit()
            if not ins.get("optional") and not governed:
                out.append(("none", p, None))
            if v is None:
                continue
            if r["kind"] in ("int", "enum"):
                out.append(("int_limit", p, INT_LIMIT[r["wire"]]))
            elif r["kind"] == "string" and ln is not None:
                if ln.isdigit():
                    out.append(("padded_too_long" if ins.get("padded") else "fixed_len", p, int(ln)))
                else:
                    lf = spec.body_find(body, ln)
                    mx = max_value_of(lf["type"]) + lf.get("offset", 0)
                    if mx < 70000:
                        out.append(("exceeds_length_field", p, mx))
            elif r["kind"] == "struct":
                out += sites(an, r["decl"]["body"], v, p)
        else:  # array
            r = an.resolve(ins["type"])
            ln = ins.get("length")
            if v is None:
                continue
            if ln is not None and ln.isdigit():
                out.append(("array_fixed_len", p, (int(ln), r)))
            elif ln is not None and r["kind"] != "struct":
                lf = spec.body_find(body, ln)
                mx = max_value_of(lf["type"]) + lf.get("offset", 0)
                if mx < 400:
                    out.append(("array_exceeds_length_field", p, mx))
            for i, el in enumerate(v):
                if r["kind"] in ("int", "enum"):
                    out.append(("int_limit", p + (i,), INT_LIMIT[r["wire"]]))
                elif r["kind"] == "struct" and isinstance(el, dict):
                    out += sites(an, r["decl"]["body"], el, p + (i,))
    return out


def _get(obj, path):
    for k in path:
        obj = obj[k]
    return obj


def _set(obj, path, v):
    for k in path[:-1]:
        obj = obj[k]
    obj[path[-1]] = v


def apply(an, body, obj, pick, valuegen_body):
    """-> (edited object, kind, path) or None. `pick(seq)` draws; `valuegen_body(case_body)` draws
    a valid object for a case body."""
    ss = sites(an, body, obj)
    if not ss:
        return None
    kinds = sorted({k for k, _, _ in ss})
    kind = pick(kinds)
    kind, path, info = pick([s for s in ss if s[0] == kind])
    o = copy.deepcopy(obj)
    if kind == "none" or kind == "case_none":
        _set(o, path, None)
    elif kind == "int_limit":
        # also: the (valid) value of a wider sibling member that is too large for this one - the same number
        # reaches the writer twice in a row, once into a field it fits and once into one it does not
        parent = _get(o, path[:-1]) if len(path) > 1 else o
        sib = [v for v in (parent.values() if isinstance(parent, dict) else parent)
               if type(v) is int and v >= info]
        _set(o, path, pick([info, info + 1, 2 ** 40] + sorted(set(sib))[:2]))
    elif kind == "fixed_len":
        cur = _get(o, path)
        delta = pick([-3, -2, -1, 1, 2, 3])
        n = max(0, info + delta)
        if n == info:
            n = info + 1
        _set(o, path, (cur + "xxx")[:n] if n <= len(cur) + 3 else cur + "x" * (n - len(cur)))
    elif kind == "padded_too_long":
        cur = _get(o, path)
        _set(o, path, cur + "x" * (info - len(cur) + pick([1, 2, 3])))
    elif kind == "exceeds_length_field":
        cur = _get(o, path)
        _set(o, path, cur + "x" * (info - len(cur) + pick([1, 2])))
    elif kind == "array_fixed_len":
        cur = list(_get(o, path))
        info, r = info
        delta = pick([-2, -1, 1, 2])
        n = max(0, info + delta)
        if n == info:
            n = info + 1
        filler = cur[0] if cur else None
        if n > len(cur):
            if filler is None:
                # an array declared with length="0" holds nothing: make up one element of its type
                k = r["kind"]
                filler = (1 if k in ("int", "enum") else True if k == "bool" else "a" if k == "string"
                          else b"a" if k == "blob" else valuegen_body(r["decl"]["body"]) if k == "struct" else None)
            if filler is None:
                return None
            cur = cur + [copy.deepcopy(filler) for _ in range(n - len(cur))]
        else:
            cur = cur[:n]
        _set(o, path, cur)
    elif kind == "array_exceeds_length_field":
        cur = list(_get(o, path))
        if not cur:
            return None
        n = info + pick([1, 2])
        cur = cur + [cur[0]] * (n - len(cur))
        _set(o, path, cur)
    elif kind == "case_falsy_for_empty":
        # data for a case that carries none must be None: an empty tuple, list, string, 0 or False is not None
        _set(o, path, {"__literal__": pick(["tuple", "list", "str", "zero", "false"])})
    elif kind == "case_impostor":
        # an object of an unrelated class that merely has the expected class' NAME
        _set(o, path, {"__impostor__": info})
    elif kind in ("case_sibling", "case_for_empty"):
        sw, cands = info
        c = pick(cands)
        d = valuegen_body(c["body"])
        d["__case__"] = spec.case_class_name(sw, c)
        _set(o, path, d)
    return o, kind, path
