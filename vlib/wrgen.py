"""Shared generators and small helpers for the writer/reader checks C04, C06 and C09.

Only Hypothesis strategies, the digit arithmetic used by the non-triviality rules, a guarded
call wrapper, and model-backed fakes of EoWriter/EoReader (used by the self tests to show that
each oracle accepts the reference model and rejects a broken one). Nothing here touches /repo.
"""

import types

from hypothesis import strategies as st

from . import refcodec, refio

B = 253
LIMITS = refcodec.LIMITS
INT_TYPES = ("char", "short", "three", "int")

# ---------------------------------------------------------------------------------------------
# strings

# Biased alphabet: ASCII (with the corner bytes of the string codec 21 22 4F 50 7D 7E 7F, NUL,
# '?', 'y'), Latin-1 (ÿ = FF, þ = FE, NBSP), characters that exist only in windows-1252
# (80..9F block), C1 controls which cp1252 cannot encode (U+0080, U+0081, U+008D, U+009D),
# non-Latin-1 BMP characters and astral characters.
SPECIAL = (
    "a", "b", "z", "A", "Z", "0", "9", " ", "\x00", "\n", "!", '"', "O", "P", "}", "~", "\x7f",
    "?", "y", "Y",
    "ÿ", "ÿ", "ÿ", "þ", "é", "ß", "\xa0", "¿",
    "€", "Ÿ", "™", "Š", "ž", "…",
    "\x80", "\x81", "\x8d", "\x9d", "\x9f",
    "Ā", "Ω", "я", "日", "\ufffd", "\uffff", "\u0301", "\u0308", "\u212a", "\u212b", "{", "}", "%",
    "\U0001F600", "\U00010000", "\U0010FFFF",
)


TEMPLATES = ("{}", "{0}", "{a}", "{name} x", "%s", "%d", "{0!r}", "{{}}", "${x}", "\\n", "e\u0301", "A\u030a",
             # character SEQUENCES that text-cleaning code treats as one unit: variation selectors, joiners,
             # surrogate pairs written as two code points, CR LF, a flag
             "\u00a9\ufe0f", "\u2122\ufe0e x", "\u2764\ufe0f", "a\u200db", "\U0001F468\u200d\U0001F469", "\ud83d\ude00", "x\ud83d\ude00y",
             "\r\n", "\U0001F1E9\U0001F1EA", "\ufeffa", "fi\ufb01")


BEYOND_FLOAT = (2 ** 1024, 2 ** 1024 + 1, 2 ** 2000, 10 ** 400)


class Bits:
    """Deterministic decoder of one Hypothesis-drawn byte blob into a sequence of choices
    (mixed-radix digits of the blob read as an integer). Hypothesis charges per draw, so every
    leaf of a case (one write op, one read plan) is ONE st.binary draw decoded through the tables
    below; all randomness is still Hypothesis', the decoding is a pure function. An all-zero
    blob decodes to the first (simplest) entry of every table, which is what shrinking heads for."""

    def __init__(self, bs):
        self.v = int.from_bytes(bs, "little")

    def below(self, n):
        self.v, r = divmod(self.v, n)
        return r

    def pick(self, seq):
        return seq[self.below(len(seq))]


BLOB = 64


def blob():
    return st.binary(min_size=BLOB, max_size=BLOB)


def text(bits, max_size, exclude="", hot=""):
    """Arbitrary Unicode (every code point except surrogates is reachable) minus exactly the
    characters in `exclude`. Length: 1/8 empty, 1/8 max_size, else uniform. Per character:
    5/16 SPECIAL, 3/16 ASCII 00..7F, 2/16 U+0080..U+00FF, 2/16 `hot` (else SPECIAL), 2/16 other
    BMP, 2/16 astral."""
    sel = bits.below(8)
    n = 0 if sel == 0 else max_size if sel == 1 else bits.below(max_size + 1)
    if bits.below(20) == 0:
        # strings that mean something to formatting / templating code
        t = bits.pick(TEMPLATES)[:max_size]
        return "".join("a" if ch in exclude else ch for ch in t)
    if bits.below(16) == 0:
        # a longer, mostly plain string with ONE unusual character in it (what a fast path for "ordinary" text
        # of some minimum length gets wrong); deliberately longer than max_size
        n = 17 + bits.below(80)
        plain = "abcXYZ 019"
        out = [plain[(i + n) % len(plain)] for i in range(n)]
        ch = bits.pick(SPECIAL)
        out[bits.below(n)] = "a" if ch in exclude else ch
        return "".join(out)
    out = []
    for _ in range(n):
        cls = bits.below(16)
        if cls < 5 or (cls in (10, 11) and not hot):
            ch = bits.pick(SPECIAL)
        elif cls < 8:
            ch = chr(bits.below(0x80))
        elif cls < 10:
            ch = chr(0x80 + bits.below(0x80))
        elif cls < 12:
            ch = bits.pick(hot)
        elif cls < 13:
            cp = 0x100 + bits.below(0x10000 - 0x100 - 0x800)
            ch = chr(cp + 0x800 if cp >= 0xD800 else cp)
        elif cls < 14:
            # blocks full of look-alikes of ASCII / windows-1252 characters ("best fit" candidates): Latin
            # Extended-A, General Punctuation, Letterlike Symbols, Mathematical Operators, fullwidth forms
            lo, hi = bits.pick(((0x100, 0x17F), (0x2000, 0x206F), (0x2100, 0x214F), (0x2200, 0x222F), (0xFF00, 0xFF5E)))
            ch = chr(lo + bits.below(hi - lo + 1))
        else:
            ch = chr(0x10000 + bits.below(0x100000))
        out.append("a" if ch in exclude else ch)
    return "".join(out)


def image(s, sanitize):
    """cp1252 image of s as the reader must return it; with sanitisation ÿ has become y."""
    img = refcodec.cp1252_image(s)
    return img.replace("ÿ", "y") if sanitize else img


def is_plain_ascii(s):
    return all(0x20 <= ord(ch) < 0x7F for ch in s)


# ---------------------------------------------------------------------------------------------
# integers

_DIGITS = (0, 0, 1, 2, 125, 126, 127, 251, 252, 252)
_BOUNDARY = {}
for _t in INT_TYPES:
    _BOUNDARY[_t] = sorted({v for k in range(1, 5) for v in (B ** k - 2, B ** k - 1, B ** k, B ** k + 1)
                            if 0 <= v < LIMITS[_t]} | {0, 1, 2, 127, 128, LIMITS[_t] - 1})
_BOUNDARY["byte"] = [0, 1, 0x79, 0x7E, 0xFD, 0xFE, 0xFF]


def in_range_int(bits, typ):
    """0 <= v < limit: 3/8 uniform, 2/8 boundary values (253^k-2..253^k+1, limit-1, ...), 3/8
    composed digit by digit (each digit 5/8 from {0,1,2,125,126,127,251,252}, else uniform)."""
    lim = LIMITS[typ]
    sel = bits.below(8)
    if sel < 3:
        return bits.below(lim)
    if sel < 5 or typ == "byte":
        return bits.pick(_BOUNDARY[typ])
    v = 0
    for i in range(refcodec.SIZES[typ]):
        d = bits.pick(_DIGITS) if bits.below(8) < 5 else bits.below(B)
        v += d * B ** i
    return v


def any_nonneg_int(bits, typ):
    """v >= 0: 3/8 in range (as in_range_int), 3/8 points around the limit and far beyond
    (limit-2..limit+2, 2*limit, 256, 253^4, 2^31, 2^32, 2^63, 2^64, 10^30), 2/8 uniform in
    [limit, limit + 2^70)."""
    lim = LIMITS[typ]
    sel = bits.below(8)
    if sel < 3:
        return in_range_int(bits, typ)
    if sel < 6:
        pts = sorted({lim - 2, lim - 1, lim, lim + 1, lim + 2, 2 * lim, 255, 256, 257,
                      B ** 4 - 1, B ** 4, 2 ** 31 - 1, 2 ** 31, 2 ** 32, 2 ** 63, 2 ** 64,
                      2 ** 64 + 1, 10 ** 30, 2 ** 1023, 2 ** 1024, 2 ** 1024 + 1, 2 ** 2000})
        return bits.pick(pts)
    return lim + bits.below(2 ** 70)


def digits(v):
    ds = []
    while True:
        ds.append(v % B)
        v //= B
        if v == 0:
            return ds


def at_digit_boundary(v):
    """v >= 252 and one of its base-253 digits is 0 or 252 (a carry is about to / did happen)."""
    return v >= B - 1 and any(d in (0, B - 1) for d in digits(v))


# ---------------------------------------------------------------------------------------------
# guarded calls into the code under test

def call(fn, *args):
    """-> ("ok", value) | ("exc", "<ExceptionType>: message")."""
    try:
        return "ok", fn(*args)
    except Exception as e:  # noqa: the code under test may raise anything
        return "exc", f"{type(e).__name__}: {e}"[:200]


def call_exc(fn, *args):
    """-> (None, value) | (exception instance, None)."""
    try:
        return None, fn(*args)
    except Exception as e:  # noqa
        return e, None


# ---------------------------------------------------------------------------------------------
# model-backed fakes (self tests only)

class FakeWriter:
    def __init__(self):
        self._m = refio.RefWriter()

    def _do(self, name, *a):
        if getattr(self._m, name)(*a) is refio.INVALID:
            raise ValueError("invalid")

    def add_byte(self, v):
        self._do("add_byte", v)

    def add_bytes(self, bs):
        self._do("add_bytes", bs)

    def add_char(self, v):
        self._do("add_char", v)

    def add_short(self, v):
        self._do("add_short", v)

    def add_three(self, v):
        self._do("add_three", v)

    def add_int(self, v):
        self._do("add_int", v)

    def add_string(self, s):
        self._do("add_string", s)

    def add_encoded_string(self, s):
        self._do("add_encoded_string", s)

    def add_fixed_string(self, s, n, padded=False):
        self._do("add_fixed_string", s, n, padded)

    def add_fixed_encoded_string(self, s, n, padded=False):
        self._do("add_fixed_encoded_string", s, n, padded)

    @property
    def string_sanitization_mode(self):
        return self._m.sanitize

    @string_sanitization_mode.setter
    def string_sanitization_mode(self, v):
        self._m.sanitize = v

    def to_bytearray(self):
        return bytearray(self._m.data)

    def __len__(self):
        return len(self._m.data)


class FakeReader:
    def __init__(self, data):
        self._m = refio.RefReader(data)

    def __getattr__(self, name):
        if name.startswith("get_") or name == "next_chunk":
            return getattr(self._m, name)
        raise AttributeError(name)

    @property
    def chunked_reading_mode(self):
        return self._m.chunked

    @chunked_reading_mode.setter
    def chunked_reading_mode(self, v):
        self._m.chunked = v

    @property
    def remaining(self):
        return self._m.remaining

    @property
    def position(self):
        return self._m.pos


def fake_core(writer=FakeWriter, reader=FakeReader):
    return types.SimpleNamespace(data=types.SimpleNamespace(EoWriter=writer, EoReader=reader))


# ---------------------------------------------------------------------------------------------
# bounded JSON-level minimisation of a reported case (DESIGN 2.4), after Hypothesis' own shrink

def _candidates(x):
    """Yields (smaller copy of x) with one simplification somewhere inside; outermost first."""
    if isinstance(x, list):
        for i in range(len(x)):
            yield x[:i] + x[i + 1:]
        for i, el in enumerate(x):
            for c in _candidates(el):
                yield x[:i] + [c] + x[i + 1:]
    elif isinstance(x, dict):
        for k in sorted(x):
            for c in _candidates(x[k]):
                y = dict(x)
                y[k] = c
                yield y
    elif isinstance(x, str):
        if len(x) > 1:
            yield x[: len(x) // 2]
            yield x[len(x) // 2:]
        for i in range(len(x)):
            yield x[:i] + x[i + 1:]
        for i, ch in enumerate(x):
            if ch != "a":
                yield x[:i] + "a" + x[i + 1:]
    elif isinstance(x, bool):
        if x:
            yield False
    elif isinstance(x, int):
        if x:
            yield 0
            if x > 1:
                yield x // 2
                yield x - 1


def minimise_last_violation(res, in_domain, check, budget=300):
    """`check(case)` raises Violation or returns. Replaces the last recorded violation of `res` by
    the smallest in-domain case found (same clause) within `budget` re-runs. Deterministic."""
    from .runner import Violation

    if not res.violations:
        return
    cur = res.violations[-1]
    clause = cur["clause"]

    def attempt(case):
        if not in_domain(case):
            return None
        try:
            check(case)
        except Violation as v:
            return v.to_json() if v.clause == clause else None
        return None

    progress = True
    while progress and budget > 0:
        progress = False
        for cand in _candidates(cur["case"]):
            budget -= 1
            got = attempt(cand)
            if got is not None:
                cur = got
                progress = True
                break
            if budget <= 0:
                break
    res.violations[-1] = cur
