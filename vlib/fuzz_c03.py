"""Secondary engine for C03 (thorough tier): coverage-guided fuzzing with atheris/libFuzzer.

Run as a subprocess:  fuzz_c03.py <case.json> <runs> <seed> <out.json>
case.json = {"tree": IR, "seeds": [{"cls": idx, "hex": ...}]}. The target decodes the fuzzer's bytes as
[class index, entry mode, payload...] and applies the SAME oracle as checks/c03.py (reference
interpreter comparison, exception whitelist, guard bands, operation budget). The first violation is
written to out.json and the process exits; otherwise out.json records the number of executions.
"""
import json
import os
import sys

HERE = os.path.dirname(os.path.dirname(os.path.abspath(__file__)))
sys.path.insert(0, HERE)
deps = os.path.join(HERE, ".deps")
if os.path.isdir(deps):
    sys.path.insert(1, deps)
sys.dont_write_bytecode = True


def main():
    case_path, runs, seed, out_path = sys.argv[1], int(sys.argv[2]), int(sys.argv[3]), sys.argv[4]
    import atheris
    from vlib import gencase
    from vlib.runner import Violation
    import checks.c03 as c03

    case = json.load(open(case_path))
    tree = case["tree"]
    state = {"execs": 0, "compared": 0, "violation": None}
    with atheris.instrument_imports(include=["eolib"]):
        s = gencase.Session(tree)
    if not s.usable:
        json.dump({"usable": False}, open(out_path, "w"))
        return
    classes = s.an.classes()
    clss = [s.cls(c) for c in classes]
    xml = gencase.xml_of(tree)

    class Res:  # minimal stand-in for TaskResult used by check_one
        def __init__(self):
            from collections import Counter
            self.labels = Counter()

        def nontrivial(self, x):
            pass

        def sample(self, *a, **k):
            pass

    res = Res()

    def flush():
        json.dump({"usable": True, "execs": state["execs"], "labels": dict(res.labels),
                   "violation": state["violation"]}, open(out_path, "w"))

    def target(data):
        if len(data) < 2:
            return
        state["execs"] += 1
        ci = data[0] % len(classes)
        chunked = bool(data[1] & 1)
        c = classes[ci]
        if c["lex"] and not chunked:
            chunked = True
        payload = bytes(data[2:])
        cj = {"tree": tree, "xml": xml,
              "items": [{"cls": c["path"], "dir": c["dir"], "chunked": chunked,
                         "inputs": [{"hex": payload.hex(), "both": False, "kind": "atheris"}]}]}
        try:
            c03.check_one(s, c, clss[ci], payload, chunked, cj, res, valid_input=False)
        except Violation as v:
            state["violation"] = v.to_json()
            flush()
            os._exit(0)
        if state["execs"] % 5000 == 0:
            flush()

    corpus = os.path.join(os.path.dirname(out_path), "corpus_" + os.path.basename(out_path))
    os.makedirs(corpus, exist_ok=True)
    for i, sd in enumerate(case.get("seeds", [])):
        with open(os.path.join(corpus, f"seed{i}"), "wb") as f:
            f.write(bytes([sd["cls"], sd.get("mode", 0)]) + bytes.fromhex(sd["hex"]))
    import atexit
    atexit.register(flush)
    argv = [sys.argv[0], f"-runs={runs}", f"-seed={seed}", "-max_len=96", "-timeout=20", "-rss_limit_mb=2048",
            "-print_final_stats=0", "-verbosity=0", corpus]
    atheris.Setup(argv, target)
    try:
        atheris.Fuzz()
    finally:
        flush()


if __name__ == "__main__":
    main()
