"""Reference EO codecs, written from the property statements (DESIGN 3.1). Shares no code with
/repo and does not call the 'windows-1252' codec by name."""

B = 253
LIMITS = {"byte": 256, "char": B, "short": B ** 2, "three": B ** 3, "int": B ** 4}
SIZES = {"byte": 1, "char": 1, "short": 2, "three": 3, "int": 4}


def ref_encode(n):
    """4-byte EO encoding of 0 <= n < 253^4."""
    digits = []
    m = n
    while True:
        digits.append(m % B)
        m //= B
        if m == 0:
            break
    if len(digits) > 4:
        raise ValueError("out of range")
    return bytes([d + 1 for d in digits] + [0xFE] * (4 - len(digits)))


def ref_decode(bs):
    total = 0
    mul = 1
    for i in range(min(len(bs), 4)):
        b = bs[i]
        if b == 0xFE:
            break
        total += (b - 1) * mul
        mul *= B
    return total


def _build_tables():
    plain = list(range(256))
    flip = list(range(256))
    for c in range(0x22, 0x7F):
        plain[c] = 0x9F - c
        flip[c] = (0x71 - c) if c < 0x50 else (0xCD - c)
    return bytes(plain), bytes(flip)


TAB_PLAIN, TAB_FLIP = _build_tables()


def _map(bs):
    L = len(bs)
    out = bytearray(L)
    for i, c in enumerate(bs):
        # position i of a length-L buffer is a flip position iff (L - i) is odd
        out[i] = TAB_FLIP[c] if (L - i) % 2 == 1 else TAB_PLAIN[c]
    return out


def ref_encode_string(bs):
    out = _map(bs)
    out.reverse()
    return bytes(out)


def ref_decode_string(bs):
    tmp = bytearray(bs)
    tmp.reverse()
    return bytes(_map(tmp))


# windows-1252, spelled out. Holes: 81 8D 8F 90 9D.
_CP1252_HIGH = {
    0x80: 0x20AC, 0x82: 0x201A, 0x83: 0x0192, 0x84: 0x201E, 0x85: 0x2026, 0x86: 0x2020,
    0x87: 0x2021, 0x88: 0x02C6, 0x89: 0x2030, 0x8A: 0x0160, 0x8B: 0x2039, 0x8C: 0x0152,
    0x8E: 0x017D, 0x91: 0x2018, 0x92: 0x2019, 0x93: 0x201C, 0x94: 0x201D, 0x95: 0x2022,
    0x96: 0x2013, 0x97: 0x2014, 0x98: 0x02DC, 0x99: 0x2122, 0x9A: 0x0161, 0x9B: 0x203A,
    0x9C: 0x0153, 0x9E: 0x017E, 0x9F: 0x0178,
}
HOLES = (0x81, 0x8D, 0x8F, 0x90, 0x9D)
BYTE2CP = {}
for _b in range(256):
    if _b < 0x80 or _b >= 0xA0:
        BYTE2CP[_b] = _b
    elif _b in _CP1252_HIGH:
        BYTE2CP[_b] = _CP1252_HIGH[_b]
CP2BYTE = {cp: b for b, cp in BYTE2CP.items()}


def to_cp1252(s):
    return bytes(CP2BYTE.get(ord(ch), 0x3F) for ch in s)


def from_cp1252(bs):
    return "".join(chr(BYTE2CP[b]) if b in BYTE2CP else "�" for b in bs)


def cp1252_image(s):
    return from_cp1252(to_cp1252(s))


def selftest():
    # literal vectors from the repository's tests (numbers)
    vec = {
        0: (0x01, 0xFE, 0xFE, 0xFE), 1: (0x02, 0xFE, 0xFE, 0xFE), 28: (0x1D, 0xFE, 0xFE, 0xFE),
        100: (0x65, 0xFE, 0xFE, 0xFE), 128: (0x81, 0xFE, 0xFE, 0xFE), 252: (0xFD, 0xFE, 0xFE, 0xFE),
        253: (0x01, 0x02, 0xFE, 0xFE), 254: (0x02, 0x02, 0xFE, 0xFE), 255: (0x03, 0x02, 0xFE, 0xFE),
        32003: (0x7E, 0x7F, 0xFE, 0xFE), 32004: (0x7F, 0x7F, 0xFE, 0xFE),
        32005: (0x80, 0x7F, 0xFE, 0xFE), 64008: (0xFD, 0xFD, 0xFE, 0xFE),
        64009: (0x01, 0x01, 0x02, 0xFE), 64010: (0x02, 0x01, 0x02, 0xFE),
        10_000_000: (0xB0, 0x3A, 0x9D, 0xFE), 16_194_276: (0xFD, 0xFD, 0xFD, 0xFE),
        16_194_277: (0x01, 0x01, 0x01, 0x02), 16_194_278: (0x02, 0x01, 0x01, 0x02),
        2_048_576_039: (0x7E, 0x7F, 0x7F, 0x7F), 2_048_576_040: (0x7F, 0x7F, 0x7F, 0x7F),
        2_048_576_041: (0x80, 0x7F, 0x7F, 0x7F), 4_097_152_079: (0xFC, 0xFD, 0xFD, 0xFD),
        4_097_152_080: (0xFD, 0xFD, 0xFD, 0xFD),
    }
    for n, bs in vec.items():
        assert ref_encode(n) == bytes(bs), n
        assert ref_decode(bytes(bs)) == n, n
    svec = [
        ("Hello, World!", "!;a-^H s^3a:)"),
        ("We're ¼ of the way there, so ¾ is remaining.",
         "C8_6_6l2h- ,d ¾ ^, sh-h7Y T>V h7Y g0 ¼ :[xhH"),
        ("64² = 4096", ";fAk b ²=i"),
        ("© FÒÖ BÃR BÅZ 2014", "=nAm EÅ] MÃ] ÖÒY ©"),
        ('Öxxö Xööx "Lëïth Säë" - "Ÿ"', "OŸO D OëäL 7YïëSO UööG öU'Ö"),
        ("Padded with 0xFFÿÿÿÿÿÿÿÿ", "ÿÿÿÿÿÿÿÿ+YUo 7Y6V i:i;lO"),
    ]
    for dec, enc in svec:
        d, e = to_cp1252(dec), to_cp1252(enc)
        assert ref_encode_string(d) == e, dec
        assert ref_decode_string(e) == d, dec
    assert to_cp1252("€Ÿ™\u0081ÿ\U0001F600") == bytes([0x80, 0x9F, 0x99, 0x3F, 0xFF, 0x3F])
    assert from_cp1252(bytes([0x81, 0x80, 0x41])) == "�€A"
