"""Reference interpreter of protocol XML (DESIGN 3.4): serialises object trees and deserialises
bytes directly from the specification IR, using the reference writer/reader models. Shares no
code with /repo.

Object trees: dict member -> value. ints for integers AND enums (the ordinal), bool, str,
bytes (blob), dict (struct), list (array), None (absent optional / no case data).
Case data: dict with "__case__": <case class simple name>.
Deserialised bodies additionally carry "__size__" (bytes consumed by that body).
"""

from . import spec
from .refio import INVALID, RefReader, RefWriter
from .spec import INT_LIMIT


class Invalid(Exception):
    """The reference serializer refuses the object (declaration violated)."""


class Unspecified(Exception):
    """Outside every property's domain (e.g. negative derived length); the case is skipped."""


class Huge(Exception):
    """Hostile counts that would need > MAX_ITER loop iterations."""


MAX_ITER = 20000


def max_value_of(t):
    return 255 if t == "byte" else INT_LIMIT[t] - 1


def hard_value(r, text):
    if r["kind"] == "int":
        return int(text)
    if r["kind"] == "bool":
        return text == "true"
    return text


class Interp:
    def __init__(self, tree_or_analysis):
        self.an = tree_or_analysis if isinstance(tree_or_analysis, spec.Analysis) else spec.Analysis(tree_or_analysis)
        self.iters = 0
        self.events = set()
        self.trace = []     # (class simple name, mode at entry) of every (nested) body, in call order

    # ================================================================== serialise
    def serialize(self, body, obj, lex=False, sanitize=False, label=None, prefix=b""):
        """`prefix`: bytes already in the writer when serialisation starts (returned as well)."""
        w = RefWriter()
        w.data.extend(prefix)
        w.sanitize = sanitize
        self.ser_body(body, obj, w, lex, label)
        return bytes(w.data)

    def ser_body(self, body, obj, w, lex, label=None):
        entry = w.sanitize
        self.trace.append((label, bool(entry)))
        st = {"missing": False, "start": len(w.data), "scope": body, "obj": obj}
        try:
            self._ser_instrs(body, w, lex, st)
        finally:
            w.sanitize = entry

    def _member_value(self, st, ins):
        """Value of a named field/array as the generated object stores it."""
        if ins.get("value") is not None and ins["tag"] == "field":
            return hard_value(self.an.resolve(ins["type"]), ins["value"])
        return st["obj"].get(ins["name"])

    def _length_value(self, st, lname):
        """Derived value of a <length> field: len(referencing member)."""
        for ins in spec.Analysis.flatten_noswitch(st["scope"]):
            if ins["tag"] in ("field", "array") and ins.get("length") == lname:
                v = self._member_value(st, ins)
                if v is None:
                    if ins.get("optional"):
                        return 0    # an absent optional member has derived length 0
                    raise Unspecified("length of a required member that is None")
                return len(v)
        raise Unspecified("unreferenced length field")

    def _write_basic(self, w, r, v, length=None, padded=False):
        k = r["kind"]
        if k == "int":
            res = w.add_int_type(r["wire"], v)
        elif k == "bool":
            res = w.add_int_type(r["wire"], 1 if v else 0)
        elif k == "enum":
            if int(v) not in [x["ord"] for x in r["decl"]["values"]]:
                self.events.add("unknown_enum")
            res = w.add_int_type(r["wire"], int(v))
        elif k == "string":
            if length is None:
                res = w.add_encoded_string(v) if r["encoded"] else w.add_string(v)
            else:
                res = (w.add_fixed_encoded_string if r["encoded"] else w.add_fixed_string)(v, length, padded)
        elif k == "blob":
            res = w.add_bytes(v)
        else:
            raise AssertionError(k)
        if res is INVALID:
            raise Invalid("writer range/length")

    def _write_value(self, w, typ, v, length=None, padded=False):
        r = self.an.resolve(typ)
        if r["kind"] == "struct":
            if not isinstance(v, dict):
                raise Invalid("struct value missing")
            self.events.add("struct")
            self.ser_body(r["decl"]["body"], v, w, False, r["name"])
        else:
            self._write_basic(w, r, v, length, padded)

    def _check_length(self, st, ins, v):
        ln = ins.get("length")
        if ln is None or ins.get("name") is None:
            return None
        if ln.isdigit():
            n = int(ln)
            if ins.get("padded"):
                if len(v) > n:
                    raise Invalid("padded too long")
            elif len(v) != n:
                raise Invalid("length mismatch")
            return n
        lf = spec.body_find(st["scope"], ln)
        if len(v) > max_value_of(lf["type"]) + lf.get("offset", 0):
            raise Invalid("exceeds length field")
        return len(v)

    def _ser_instrs(self, instrs, w, lex, st):
        for ins in instrs:
            t = ins["tag"]
            if t == "field":
                if ":" in ins["type"]:
                    self.events.add("override")
                if ins.get("name") is None:
                    self.events.add("unnamed")
                    r = self.an.resolve(ins["type"])
                    v = hard_value(r, ins["value"])
                    ln = ins.get("length")
                    self._write_basic(w, r, v, int(ln) if ln is not None else None, bool(ins.get("padded")))
                    continue
                v = self._member_value(st, ins)
                if ins.get("optional"):
                    st["missing"] = st["missing"] or v is None
                    if st["missing"]:
                        continue
                elif v is None:
                    raise Invalid("required member is None")
                if ins.get("optional"):
                    self.events.add("optional_present")
                if ins.get("value") is not None:
                    self.events.add("hardcoded")
                n = self._check_length(st, ins, v)
                if n is not None:
                    if ins.get("padded") and len(v) < n:
                        self.events.add("padding")
                    if not ins["length"].isdigit():
                        self.events.add("len_governed")
                if isinstance(v, str) and w.sanitize and "\xff" in v:
                    self.events.add("sanitized")
                self._write_value(w, ins["type"], v, n, bool(ins.get("padded")))
            elif t == "length":
                v = self._length_value(st, ins["name"]) - ins.get("offset", 0)
                if ins.get("optional"):
                    if st["missing"]:
                        continue
                if v < 0:
                    raise Unspecified("negative derived length")
                if ins.get("offset", 0) != 0:
                    self.events.add("len_offset")
                if w.add_int_type(ins["type"], v) is INVALID:
                    raise Invalid("length value out of range")
            elif t == "array":
                v = st["obj"].get(ins["name"])
                if ins.get("optional"):
                    st["missing"] = st["missing"] or v is None
                    if st["missing"]:
                        continue
                elif v is None:
                    raise Invalid("required array is None")
                self._check_length(st, ins, v)
                if ":" in ins["type"]:
                    self.events.add("override")
                if ins.get("optional"):
                    self.events.add("optional_present")
                if ins.get("length") is not None and not ins["length"].isdigit():
                    self.events.add("len_governed")
                delim = bool(ins.get("delimited"))
                trailing = ins.get("trailing", True)
                for i, el in enumerate(v):
                    self.events.add("array")
                    if delim and not trailing and i > 0:
                        self.events.add("delimiter")
                        w.add_byte(0xFF)
                    if isinstance(el, str) and w.sanitize and "\xff" in el:
                        self.events.add("sanitized")
                    self._write_value(w, ins["type"], el)
                    if delim and trailing:
                        self.events.add("delimiter")
                        w.add_byte(0xFF)
            elif t == "dummy":
                if len(w.data) == st["start"]:
                    self.events.add("dummy")
                    r = self.an.resolve(ins["type"])
                    self._write_basic(w, r, hard_value(r, ins["value"]))
            elif t == "switch":
                fins = spec.body_find(st["scope"], ins["field"])
                if fins["tag"] == "length":
                    fv = self._length_value(st, fins["name"])
                else:
                    fv = self._member_value(st, fins)
                case = self.select_case(ins, fins, fv)
                cd = st["obj"].get(ins["field"] + "_data")
                if case is None:
                    continue
                if not case["body"]:
                    if cd is not None:
                        raise Invalid("case data given for an empty case")
                    continue
                if not isinstance(cd, dict) or cd.get("__case__") != spec.case_class_name(ins, case):
                    raise Invalid("wrong case data")
                self.events.add("case_body")
                self.ser_body(case["body"], cd, w, lex, spec.case_class_name(ins, case))
            elif t == "chunked":
                if not lex:
                    w.sanitize = True
                    self._ser_instrs(ins["body"], w, True, st)
                    w.sanitize = False
                else:
                    self._ser_instrs(ins["body"], w, True, st)
            elif t == "break":
                w.add_byte(0xFF)
                self.events.add("break")
                st["missing"] = False

    def select_case(self, sw, fins, fv):
        """First case whose value equals fv, else the default case, else None."""
        r = self.an.resolve(fins["type"])
        default = None
        for c in sw["cases"]:
            if c.get("default"):
                default = c
                break
            val = c["value"]
            if r["kind"] == "enum" and not val.isdigit():
                cv = next(v["ord"] for v in r["decl"]["values"] if v["name"] == val)
            else:
                cv = int(val)
            if fv is not None and not isinstance(fv, (str, bytes, dict, list)) and int(fv) == cv:
                return c
        return default

    # ================================================================== deserialise
    def deserialize(self, body, data, lex=False, chunked=False, reader=None, label=None):
        """-> ("ok", obj, reader) | ("ValueError"|"RuntimeError", None, reader)"""
        r = reader or RefReader(data)
        r.chunked = chunked
        self.iters = 0
        try:
            obj = self.de_body(body, r, lex, label)
            return ("ok", obj, r)
        except ValueError:
            return ("ValueError", None, r)
        except RuntimeError:
            return ("RuntimeError", None, r)

    def de_body(self, body, r, lex, label=None):
        entry = r.chunked
        self.trace.append((label, bool(entry)))
        st = {"start": r.pos, "scope": body, "obj": {}, "vars": {}}
        try:
            self._de_instrs(body, r, lex, st)
            st["obj"]["__size__"] = r.pos - st["start"]
            return st["obj"]
        finally:
            r.chunked = entry

    def _tick(self):
        self.iters += 1
        if self.iters > MAX_ITER:
            raise Huge()

    def _read_basic(self, r, res, length=None, padded=False):
        k = res["kind"]
        if k == "int":
            return r.get_int_type(res["wire"])
        if k == "bool":
            return r.get_int_type(res["wire"]) != 0
        if k == "enum":
            return r.get_int_type(res["wire"])
        if k == "string":
            if length is None:
                return r.get_encoded_string() if res["encoded"] else r.get_string()
            return (r.get_fixed_encoded_string if res["encoded"] else r.get_fixed_string)(length, padded)
        if k == "blob":
            return bytes(r.get_bytes(r.remaining))
        raise AssertionError(k)

    def _read_value(self, r, typ, length=None, padded=False):
        res = self.an.resolve(typ)
        if res["kind"] == "struct":
            return self.de_body(res["decl"]["body"], r, False, res["name"])
        return self._read_basic(r, res, length, padded)

    def _len_expr(self, st, ln):
        if ln is None:
            return None
        if ln.isdigit():
            return int(ln)
        v = st["vars"].get(ln)
        if v is None:
            raise Unspecified("length variable is None")
        return v

    def _de_instrs(self, instrs, r, lex, st):
        for ins in instrs:
            t = ins["tag"]
            if t == "field":
                name = ins.get("name")
                res = self.an.resolve(ins["type"])
                if ins.get("optional"):
                    v = None
                    self.events.add("optional_present" if r.remaining > 0 else "optional_absent")
                    if r.remaining > 0:
                        v = self._read_value(r, ins["type"], self._len_expr(st, ins.get("length")),
                                             bool(ins.get("padded")))
                else:
                    v = self._read_value(r, ins["type"], self._len_expr(st, ins.get("length")),
                                         bool(ins.get("padded")))
                if name is not None:
                    st["vars"][name] = v
                    st["obj"][name] = hard_value(res, ins["value"]) if ins.get("value") is not None else v
            elif t == "length":
                v = None
                self.events.add("length_field")
                if not ins.get("optional") or r.remaining > 0:
                    v = r.get_int_type(ins["type"]) + ins.get("offset", 0)
                st["vars"][ins["name"]] = v
            elif t == "array":
                v = None
                if ins.get("optional"):
                    self.events.add("optional_present" if r.remaining > 0 else "optional_absent")
                if not ins.get("optional") or r.remaining > 0:
                    v = self._de_array(ins, r, st)
                st["vars"][ins["name"]] = v
                st["obj"][ins["name"]] = v
            elif t == "dummy":
                if r.pos == st["start"]:
                    self._read_basic(r, self.an.resolve(ins["type"]))
            elif t == "switch":
                fins = spec.body_find(st["scope"], ins["field"])
                fv = st["vars"].get(ins["field"])
                case = self.select_case(ins, fins, fv)
                self.events.add("switch")
                cd = None
                if case is not None and case["body"]:
                    cd = self.de_body(case["body"], r, lex, spec.case_class_name(ins, case))
                    cd["__case__"] = spec.case_class_name(ins, case)
                st["obj"][ins["field"] + "_data"] = cd
            elif t == "chunked":
                if not lex:
                    r.chunked = True
                    self._de_instrs(ins["body"], r, True, st)
                    r.chunked = False
                else:
                    self._de_instrs(ins["body"], r, True, st)
            elif t == "break":
                self.events.add("chunk_boundary")
                r.next_chunk()

    def _de_array(self, ins, r, st):
        count = self._len_expr(st, ins.get("length"))
        delim = bool(ins.get("delimited"))
        trailing = ins.get("trailing", True)
        if count is None and not delim:
            es = self.an.type_fixed_size(ins["type"])
            if es is not None:
                count = r.remaining // es
        out = []
        if ins.get("length") is None:
            self.events.add("unbounded_array")
        if delim:
            self.events.add("chunk_boundary")
        if count is None:
            while r.remaining > 0:
                self._tick()
                out.append(self._read_value(r, ins["type"]))
                if delim:
                    r.next_chunk()
        else:
            if count > MAX_ITER:
                raise Huge()
            for i in range(count):
                self._tick()
                out.append(self._read_value(r, ins["type"]))
                if delim and (trailing or i + 1 < count):
                    r.next_chunk()
        return out


def _flatten_noswitch(body, out=None):
    if out is None:
        out = []
    for ins in body:
        out.append(ins)
        if ins["tag"] == "chunked":
            _flatten_noswitch(ins["body"], out)
    return out


spec.Analysis.flatten_noswitch = staticmethod(_flatten_noswitch)


def strip_sizes(o):
    """Object tree without the __size__ bookkeeping (for comparing with a value tree)."""
    if isinstance(o, dict):
        return {k: strip_sizes(v) for k, v in o.items() if k != "__size__"}
    if isinstance(o, list):
        return [strip_sizes(x) for x in o]
    return o
