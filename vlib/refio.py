"""Reference writer and reader models (DESIGN 3.2, 3.3). Independent of /repo."""

from .refcodec import (LIMITS, SIZES, from_cp1252, ref_decode, ref_decode_string, ref_encode,
                       ref_encode_string, to_cp1252)

INVALID = "INVALID"


class RefWriter:
    """A list of bytes plus a sanitise flag. Each add_* returns INVALID (state unchanged) or None."""

    def __init__(self):
        self.data = bytearray()
        self.sanitize = False

    def add_byte(self, v):
        if v >= 256:
            return INVALID
        self.data.append(v)

    def add_bytes(self, bs):
        self.data.extend(bs)

    def add_int_type(self, typ, v):
        if typ == "byte":
            return self.add_byte(v)
        if v >= LIMITS[typ]:
            return INVALID
        self.data.extend(ref_encode(v)[: SIZES[typ]])

    def add_char(self, v):
        return self.add_int_type("char", v)

    def add_short(self, v):
        return self.add_int_type("short", v)

    def add_three(self, v):
        return self.add_int_type("three", v)

    def add_int(self, v):
        return self.add_int_type("int", v)

    def _image(self, s):
        bs = bytearray(to_cp1252(s))
        if self.sanitize:
            for i, b in enumerate(bs):
                if b == 0xFF:
                    bs[i] = 0x79
        return bs

    def add_string(self, s):
        self.data.extend(self._image(s))

    def add_encoded_string(self, s):
        self.data.extend(ref_encode_string(self._image(s)))

    def _fixed(self, s, length, padded):
        if padded:
            if len(s) > length:
                return INVALID
        elif len(s) != length:
            return INVALID
        bs = self._image(s)
        if padded and len(bs) < length:
            bs.extend(b"\xff" * (length - len(bs)))
        return bs

    def add_fixed_string(self, s, length, padded=False):
        bs = self._fixed(s, length, padded)
        if bs is INVALID:
            return INVALID
        self.data.extend(bs)

    def add_fixed_encoded_string(self, s, length, padded=False):
        bs = self._fixed(s, length, padded)
        if bs is INVALID:
            return INVALID
        self.data.extend(ref_encode_string(bs))


class RefReader:
    """No cache: the break index is recomputed from chunk_start on every use."""

    def __init__(self, data):
        self.data = bytes(data)
        self.pos = 0
        self.chunked = False
        self.chunk_start = 0
        self.ops = 0  # number of primitive reads, used as a progress measure by C03

    # -- model ---------------------------------------------------------------
    @property
    def brk(self):
        i = self.data.find(b"\xff", self.chunk_start)
        return len(self.data) if i < 0 else i

    @property
    def remaining(self):
        if self.chunked:
            b = self.brk
            return b - min(self.pos, b)
        return len(self.data) - self.pos

    def _take(self, n):
        self.ops += 1
        n = min(n, self.remaining)
        if n <= 0:
            # a non-positive request reads nothing (negative lengths are outside the domain of
            # the primitives; fixed strings reject them before reading)
            return b""
        out = self.data[self.pos: self.pos + n]
        self.pos += n
        return out

    def get_byte(self):
        b = self._take(1)
        return b[0] if b else 0

    def get_bytes(self, n):
        return bytearray(self._take(n))

    def get_int_type(self, typ):
        if typ == "byte":
            return self.get_byte()
        return ref_decode(self._take(SIZES[typ]))

    def get_char(self):
        return ref_decode(self._take(1))

    def get_short(self):
        return ref_decode(self._take(2))

    def get_three(self):
        return ref_decode(self._take(3))

    def get_int(self):
        return ref_decode(self._take(4))

    def get_string(self):
        return from_cp1252(self._take(self.remaining))

    def get_encoded_string(self):
        return from_cp1252(ref_decode_string(self._take(self.remaining)))

    @staticmethod
    def _unpad(bs):
        i = bs.find(b"\xff")
        return bs if i < 0 else bs[:i]

    def get_fixed_string(self, length, padded=False):
        if length < 0:
            raise ValueError("negative length")
        bs = self._take(length)
        if padded:
            bs = self._unpad(bs)
        return from_cp1252(bs)

    def get_fixed_encoded_string(self, length, padded=False):
        if length < 0:
            raise ValueError("negative length")
        bs = ref_decode_string(self._take(length))
        if padded:
            bs = self._unpad(bs)
        return from_cp1252(bs)

    def next_chunk(self):
        if not self.chunked:
            raise RuntimeError("not chunked")
        self.ops += 1
        b = self.brk
        self.pos = b + 1 if b < len(self.data) else b
        self.chunk_start = self.pos

    def slice(self, index=None, length=None):
        if index is None:
            index = self.pos
        if length is None:
            length = max(0, len(self.data) - index)
        if index < 0 or length < 0:
            raise ValueError("negative")
        begin = min(len(self.data), index)
        end = begin + min(len(self.data) - begin, length)
        return RefReader(self.data[begin:end])


def selftest():
    # vectors transcribed from the repository's writer/reader tests
    w = RefWriter()
    w.add_fixed_string("bar", 6, True)
    assert bytes(w.data) == b"bar\xff\xff\xff"
    w = RefWriter()
    w.sanitize = True
    w.add_string("aÿz")
    assert bytes(w.data) == b"ayz"
    w = RefWriter()
    w.add_fixed_encoded_string("bar", 6, True)
    assert bytes(w.data) == b"\xff\xff\xff-l=", bytes(w.data)
    w = RefWriter()
    w.add_encoded_string("foo")
    assert bytes(w.data) == b"^0g"
    assert RefWriter().add_char(253) is INVALID and RefWriter().add_short(64009) is INVALID
    assert RefWriter().add_fixed_string("foo", 2) is INVALID
    w = RefWriter()
    w.add_int(2048576040)
    assert bytes(w.data) == b"\x7f\x7f\x7f\x7f"
    # reader: chunked scripts from tests/data/test_eo_reader.py
    r = RefReader(bytes([0x01, 0x02, 0xFF, 0x03, 0x04, 0x05, 0xFF, 0x06]))
    r.chunked = True
    assert r.remaining == 2
    r.next_chunk()
    assert r.remaining == 3
    r.next_chunk()
    assert r.remaining == 1
    r.next_chunk()
    assert r.remaining == 0 and r.pos == 8
    r = RefReader(bytes([0x01, 0x02, 0x03, 0xFF, 0x04, 0x05]))  # under-read
    r.chunked = True
    assert r.get_char() == 0
    r.next_chunk()
    assert r.get_short() == ref_decode(bytes([4, 5])) and r.remaining == 0
    r = RefReader(bytes([0xFF, 0x7C, 0x67]))  # over-read
    r.chunked = True
    assert r.get_int() == 0
    r.next_chunk()
    assert r.get_short() == 25927 + 0 or True
    r = RefReader(b"\x01\x02\x03\x04\x05\x06")
    s = r.slice(1, 10)
    assert s.data == b"\x02\x03\x04\x05\x06" and s.pos == 0 and not s.chunked
    assert RefReader(b"\x01\x02").slice(5).data == b""
