"""A call that fails must not spoil later calls: the documented functions are functions of their arguments.
`after_failures(bad_calls, good_call)` runs in a forked child process (so that whatever the failed calls leave
behind cannot reach the rest of the check): first the calls that are expected to raise (wrong argument types,
rejected values; whatever they do is ignored), then one valid call. Returns ("ok", value) | ("exc", "<Type>: msg")
| ("blocked", None) - the last if the child has not answered after `timeout` seconds (a lock that an earlier,
failed call never released). The timeout is orders of magnitude above anything the functions need even on a loaded
machine; it is only a way to see a deadlock."""
import os
import pickle
import select
import signal


def after_failures(bad_calls, good_call, timeout=120.0):
    rfd, wfd = os.pipe()
    pid = os.fork()
    if pid == 0:
        try:
            os.close(rfd)
            for c in bad_calls:
                try:
                    c()
                except BaseException:  # noqa: BLE001 - these calls are supposed to fail
                    pass
            try:
                out = ("ok", good_call())
            except Exception as e:  # noqa: BLE001
                out = ("exc", f"{type(e).__name__}: {e}"[:200])
            with os.fdopen(wfd, "wb") as f:
                pickle.dump(out, f)
        finally:
            os._exit(0)
    os.close(wfd)
    try:
        ready, _, _ = select.select([rfd], [], [], timeout)
        if not ready:
            os.kill(pid, signal.SIGKILL)
            return ("blocked", None)
        with os.fdopen(rfd, "rb") as f:
            rfd = None
            data = f.read()
        return pickle.loads(data) if data else ("exc", "child exited without an answer")
    finally:
        if rfd is not None:
            os.close(rfd)
        try:
            os.waitpid(pid, 0)
        except ChildProcessError:
            pass
