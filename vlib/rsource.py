"""Scripted substitute for the module-level functions of `random` (DESIGN 5/C12).

The code under test calls `random.randrange(...)` etc. through the module attribute (that is
also what the repository's own tests patch). `ScriptedRandom(rmod, chooser)` replaces
randrange / randint / choice / random / getrandbits in that module object by functions that
  * compute the *requested* outcome domain from the arguments actually passed (nothing about
    the ranges is assumed by the harness),
  * behave like the real function on a bad request (empty range -> ValueError, empty
    sequence -> IndexError, non-integer bound -> TypeError),
  * ask `chooser(pos, draw)` for the index of the outcome to return, and
  * append a JSON-able record of the draw to `.trace`.
Every other public draw function of the module (uniform, sample, shuffle, ...) is replaced by
a function that raises HarnessError: a run that uses one cannot be enumerated and must not
pass silently. Everything is restored on exit.

`walk(src, fn, prefix)` enumerates by depth-first search every leaf of the choice tree of
`fn()` below a fixed prefix of outcome indices.
"""

from operator import index as _index

from .runner import HarnessError

SCRIPTED = ("randrange", "randint", "choice", "random", "getrandbits")
# public draw functions that cannot be enumerated by this harness
UNSUPPORTED = ("uniform", "triangular", "sample", "shuffle", "choices", "randbytes",
               "normalvariate", "lognormvariate", "expovariate", "vonmisesvariate",
               "gammavariate", "gauss", "betavariate", "paretovariate", "weibullvariate",
               "binomialvariate")
MAX_DRAWS = 48
FLOAT_SAMPLES = (0.0, 2.0 ** -53, 0.25, 0.5, 0.75, 1.0 - 2.0 ** -53)
BITS_COMPLETE = 12


def random_module(mod):
    """The module whose draw functions are substituted: the one the code under test imported as `random`, else
    the standard library's."""
    import random as _r
    r = getattr(mod, "random", None)
    return r if getattr(r, "randrange", None) is not None and hasattr(r, "Random") else _r


class Draw:
    """One observed request: fn, normalised args, the outcome domain, the outcome chosen."""
    __slots__ = ("fn", "args", "count", "index", "returned", "domain", "error", "sampled")

    def __init__(self, fn, args, domain, error=None, sampled=False):
        self.fn = fn
        self.args = args
        self.domain = domain          # indexable sequence of outcomes ([] when error)
        self.error = error            # exception instance the real function would raise
        self.count = 1 if error is not None else len(domain)
        self.index = 0
        self.returned = None
        self.sampled = sampled        # domain is a sample of an unenumerably large space

    def shape(self):
        return (self.fn, self.args, self.count)

    def to_json(self):
        r = self.returned
        if self.error is not None:
            r = "raise:" + type(self.error).__name__
        elif not isinstance(r, (int, float, str, bool, type(None))):
            r = repr(r)
        return {"fn": self.fn, "args": list(self.args), "count": self.count,
                "index": self.index, "returned": r}


def _randrange_domain(start, stop=None, step=1):
    # mirrors random.Random.randrange of CPython 3.12 (argument handling and errors)
    istart = _index(start)
    if stop is None:
        if step != 1:
            raise TypeError("Missing a non-None stop argument")
        if istart > 0:
            return (0, istart, 1), range(istart), None
        return (0, istart, 1), (), ValueError("empty range for randrange()")
    istop = _index(stop)
    istep = _index(step)
    if istep == 0:
        return (istart, istop, istep), (), ValueError("zero step for randrange()")
    r = range(istart, istop, istep)
    if len(r) == 0:
        return (istart, istop, istep), (), ValueError(
            "empty range in randrange(%d, %d, %d)" % (istart, istop, istep))
    return (istart, istop, istep), r, None


class ScriptedRandom:
    def __init__(self, rmod, chooser):
        self.rmod = rmod
        self.chooser = chooser
        self.trace = []
        self._saved = None

    # -- the substitutes --------------------------------------------------------------
    def _draw(self, d):
        pos = len(self.trace)
        if pos >= MAX_DRAWS:
            raise HarnessError(f"more than {MAX_DRAWS} draws in one run: the choice tree is not "
                               "finite enough to enumerate")
        self.trace.append(d)
        if d.error is not None:
            raise d.error
        i = self.chooser(pos, d)
        if not (0 <= i < d.count):
            raise HarnessError(f"chooser returned {i} for a draw with {d.count} outcomes")
        d.index = i
        d.returned = d.domain[i]
        return d.returned

    def randrange(self, start, stop=None, step=1):
        try:
            args, dom, err = _randrange_domain(start, stop, step)
        except TypeError as e:  # non-integer bound: the real function raises as well
            args, dom, err = (repr(start), repr(stop), repr(step)), (), e
        return self._draw(Draw("randrange", args, dom, err))

    def randint(self, a, b):
        try:
            ia, ib = _index(a), _index(b)
        except TypeError as e:
            return self._draw(Draw("randint", (repr(a), repr(b)), (), e))
        if ib < ia:
            return self._draw(Draw("randint", (ia, ib), (), ValueError(
                "empty range in randrange(%d, %d)" % (ia, ib + 1))))
        return self._draw(Draw("randint", (ia, ib), range(ia, ib + 1)))

    def choice(self, seq):
        n = len(seq)
        if n == 0:
            return self._draw(Draw("choice", (0,), (), IndexError(
                "Cannot choose from an empty sequence")))
        return self._draw(Draw("choice", (n,), seq))

    def random(self):
        return self._draw(Draw("random", (), FLOAT_SAMPLES, sampled=True))

    def getrandbits(self, k):
        k = _index(k)
        if k < 0:
            return self._draw(Draw("getrandbits", (k,), (), ValueError(
                "number of bits must be non-negative")))
        if k <= BITS_COMPLETE:
            return self._draw(Draw("getrandbits", (k,), range(1 << k)))
        top = 1 << k
        dom = (0, 1, 2, top >> 1, (top >> 1) - 1, top - 2, top - 1)
        return self._draw(Draw("getrandbits", (k,), dom, sampled=True))

    # -- patching ---------------------------------------------------------------------
    def __enter__(self):
        if self._saved is not None:
            raise HarnessError("ScriptedRandom is not re-entrant")
        saved = {}
        self._aliases = []
        try:
            for name in SCRIPTED:
                saved[name] = getattr(self.rmod, name)
                setattr(self.rmod, name, getattr(self, name))
            # the code under test may have bound the functions to names of its own (`from random import
            # randrange`): those names are redirected too
            import sys as _sys
            for modname, mod in list(_sys.modules.items()):
                if mod is None or not (modname == "eolib" or modname.startswith("eolib.")):
                    continue
                for k, v in list(vars(mod).items()):
                    for name in SCRIPTED:
                        if v is saved[name]:
                            self._aliases.append((mod, k, v))
                            setattr(mod, k, getattr(self, name))
            for name in UNSUPPORTED:
                if hasattr(self.rmod, name):
                    saved[name] = getattr(self.rmod, name)
                    setattr(self.rmod, name, _unsupported(name))
        except BaseException:
            for k, v in saved.items():
                setattr(self.rmod, k, v)
            raise
        self._saved = saved
        return self

    def __exit__(self, *exc):
        for k, v in self._saved.items():
            setattr(self.rmod, k, v)
        for mod, k, v in getattr(self, "_aliases", []):
            setattr(mod, k, v)
        self._aliases = []
        self._saved = None
        return False


def _unsupported(name):
    def f(*a, **k):
        raise HarnessError(f"code under test called random.{name}, which this harness cannot "
                           "substitute by an enumerable source")
    return f


def run_scripted(src, fn, script):
    """Run fn() with the outcome indices in `script` forced (index 0 beyond the script).
    `src` must be an entered ScriptedRandom. Returns (obj, exc, trace)."""
    src.trace = []

    def chooser(pos, d):
        if pos < len(script):
            i = script[pos]
            if i >= d.count:
                raise HarnessError("the choice tree changed between two runs with the same "
                                   f"prefix (index {i} >= {d.count} outcomes at draw {pos})")
            return i
        return 0

    src.chooser = chooser
    obj = exc = None
    try:
        obj = fn()
    except HarnessError:
        raise
    except Exception as e:  # noqa: the oracle decides what an exception means
        exc = e
    return obj, exc, src.trace


def walk(src, fn, prefix):
    """Yield (obj, exc, trace) for every leaf of the choice tree of fn() whose first
    len(prefix) outcome indices equal `prefix`."""
    fixed = len(prefix)
    script = list(prefix)
    prev = None
    while True:
        obj, exc, trace = run_scripted(src, fn, script)
        if len(trace) < len(script):
            raise HarnessError("the choice tree changed between two runs with the same prefix "
                               f"({len(trace)} draws, script has {len(script)})")
        if prev is not None:
            for j in range(len(script)):
                if prev[j].shape() != trace[j].shape():
                    raise HarnessError("the code under test is not a function of the scripted "
                                       f"draws: draw {j} was {prev[j].shape()}, now {trace[j].shape()}")
        yield obj, exc, trace
        p = len(trace) - 1
        while p >= fixed and trace[p].index + 1 >= trace[p].count:
            p -= 1
        if p < fixed:
            return
        script = [t.index for t in trace[:p]] + [trace[p].index + 1]
        prev = trace
