"""Secondary engine for C05 (thorough tier): coverage-guided fuzzing with atheris/libFuzzer.

Run as a subprocess:  fuzz_c05.py <runs> <seed> <out.json> [corpus-flag]
The fuzzer's bytes are decoded as  [n_data][data...][op triples...]  into (data, history) and run
through the SAME oracle as checks/c05.py (run_history: lockstep with the reference reader under two
sentinel patterns). The first violation is written to out.json and the process exits.
"""
import json
import os
import sys

HERE = os.path.dirname(os.path.dirname(os.path.abspath(__file__)))
sys.path.insert(0, HERE)
deps = os.path.join(HERE, ".deps")
if os.path.isdir(deps):
    sys.path.insert(1, deps)
sys.dont_write_bytecode = True


def main():
    runs, seed, out_path = int(sys.argv[1]), int(sys.argv[2]), sys.argv[3]
    with_corpus = len(sys.argv) > 4 and sys.argv[4] == "1"
    import atheris
    from vlib import loader
    from vlib.runner import Violation
    with atheris.instrument_imports(include=["eolib"]):
        c = loader.core()
    import checks.c05 as c05
    EoReader = c.data.EoReader
    state = {"execs": 0, "violation": None, "nontrivial": 0}

    def flush():
        json.dump(state, open(out_path, "w"))

    def decode(buf):
        if not buf:
            return b"", []
        n = buf[0] % 33
        data = bytes(buf[1:1 + n])
        ops = []
        rest = buf[1 + n:]
        for i in range(0, len(rest) - 2, 3):
            k, a, b = rest[i], rest[i + 1], rest[i + 2]
            kind = c05.KINDS[k % len(c05.KINDS)]
            idx = (0, 0, 1, -1)[(k >> 6) & 3]
            aa = c05.ARGS[a % len(c05.ARGS)]
            bb = c05.ARGS[b % len(c05.ARGS)]
            ops.append(c05._decode_op((idx, kind, aa, bb)))
            if len(ops) >= 40:
                break
        return data, ops

    def target(buf):
        state["execs"] += 1
        data, ops = decode(buf)
        info = {}
        try:
            c05.run_history(EoReader, data, ops, info)
        except Violation as v:
            state["violation"] = v.to_json()
            flush()
            os._exit(0)
        if info.get("flags") == 7:
            state["nontrivial"] += 1
        if state["execs"] % 5000 == 0:
            flush()

    corpus = os.path.join(os.path.dirname(out_path), "corpus_" + os.path.basename(out_path))
    os.makedirs(corpus, exist_ok=True)
    if with_corpus:
        seeds = [bytes([5, 1, 2, 0xFF, 3, 4]) + bytes([c05.KINDS.index("mode_on"), 0, 0, c05.KINDS.index("get_short"), 0, 0,
                                                      c05.KINDS.index("next_chunk"), 0, 0, c05.KINDS.index("get_int"), 0, 0]),
                 bytes([3, 0xFF, 0x7C, 0x67]) + bytes([c05.KINDS.index("slice"), 6, 8, 0x40 | c05.KINDS.index("get_string"), 0, 0])]
        for i, sd in enumerate(seeds):
            with open(os.path.join(corpus, f"seed{i}"), "wb") as f:
                f.write(sd)
    argv = [sys.argv[0], f"-runs={runs}", f"-seed={seed}", "-max_len=160", "-timeout=20", "-rss_limit_mb=2048",
            "-print_final_stats=0", "-verbosity=0", corpus]
    atheris.Setup(argv, target)
    try:
        atheris.Fuzz()
    finally:
        flush()


if __name__ == "__main__":
    main()
