"""Object-tree strategies derived from a specification (DESIGN 4.2), construction of the real
generated instances from object trees, and structural comparison real-object <-> tree."""

from hypothesis import strategies as st

from . import spec
from .refinterp import hard_value, max_value_of
from .spec import INT_LIMIT

TEXT_ALPHABET = (
    "abcxyzABC019 .,!-_"      # ascii
    "~~"                      # the encoded-string hole
    "ÿÿ"                      # 0xFF
    "€Ÿ™Žœ"                   # cp1252-only
    "éÖñ¿"                    # latin-1
    "\x81\x8d\x9d"           # C1 controls cp1252 cannot encode
    "ЖΩ中\U0001F600"           # outside cp1252
    "\x00\x7f"
)

SAFE_ALPHABET = "abcxyzABC019 .,!-_€Ÿ™éÖñ"


def int_strategy(limit):
    b = [0, 1, 2, 252, 253, 254, 255, 64008, 64009, 16194276, 16194277, limit - 2, limit - 1]
    b = sorted({x for x in b if 0 <= x < limit})
    return st.one_of(st.integers(0, limit - 1), st.sampled_from(b), st.integers(0, min(limit - 1, 10)))


def text_strategy(min_size, max_size, safe=False):
    return st.text(alphabet=SAFE_ALPHABET if safe else TEXT_ALPHABET, min_size=min_size, max_size=max_size)


class ValueGen:
    def __init__(self, an, safe_strings=False, big_lengths=True, declared_share=7):
        self.an = an
        self.declared_share = declared_share      # tenths of the enum values that are declared ordinals
        self.safe = safe_strings
        self.big = big_lengths

    def scalar(self, draw, typ, length=None, padded=False, scope=None, bias=None):
        r = self.an.resolve(typ)
        k = r["kind"]
        if k == "int":
            if bias and draw(st.integers(0, 9)) < 7:
                return draw(st.sampled_from(bias))
            if r["wire"] == "byte" and draw(st.integers(0, 5)) == 0:
                return 255      # the one integer value that looks like a break byte on the wire
            return draw(int_strategy(INT_LIMIT[r["wire"]]))
        if k == "bool":
            return draw(st.booleans())
        if k == "enum":
            lim = INT_LIMIT[r["wire"]]
            if bias and draw(st.integers(0, 9)) < 7:
                return draw(st.sampled_from(bias))
            declared = [v["ord"] for v in r["decl"]["values"] if v["ord"] < lim]
            if declared and draw(st.integers(0, 9)) < self.declared_share:
                return draw(st.sampled_from(declared))
            return draw(int_strategy(lim))
        if k == "string":
            if length is None:
                return draw(text_strategy(0, 6, self.safe))
            if length.isdigit():
                n = int(length)
                return draw(text_strategy(0 if padded else n, n, self.safe))
            lf = spec.body_find(scope, length)
            mx = max(0, max_value_of(lf["type"]) + lf.get("offset", 0))
            lo = max(0, lf.get("offset", 0))   # keeps len - offset >= 0
            if self.big and mx <= 300 and draw(st.integers(0, 19)) == 0:
                return draw(text_strategy(max(lo, mx - 1), mx, True))
            if self.big and mx >= 70000 and draw(st.integers(0, 29)) == 0:
                # a three- or int-sized length field: texts longer than anything a short could count (pub files)
                motif = draw(text_strategy(1, 5, True)) or "ab"
                n = 64009 + draw(st.integers(0, 40))
                return (motif * (n // len(motif) + 1))[:n]
            return draw(text_strategy(min(lo, mx), max(min(lo, mx), min(mx, lo + 6)), self.safe))
        if k == "blob":
            return draw(st.lists(st.sampled_from([0, 1, 0x41, 0xFE, 0xFF, 0x7E, 0x80]), max_size=6).map(bytes))
        return self.body(draw, r["decl"]["body"])

    def body(self, draw, body):
        """-> dict for a struct/packet/case body."""
        obj = {}
        members = spec.body_members(body)
        switches = [ins for (_, ins, k) in members if k == "case_data"]
        # bias for switch fields
        bias = {}
        for sw in switches:
            fins = spec.body_find(body, sw["field"])
            if fins is None or fins["tag"] != "field":
                continue
            r = self.an.resolve(fins["type"])
            vals = []
            for c in sw["cases"]:
                if c.get("default"):
                    continue
                v = c["value"]
                if r["kind"] == "enum" and not v.isdigit():
                    vals.append(next(x["ord"] for x in r["decl"]["values"] if x["name"] == v))
                else:
                    vals.append(int(v))
            lim = INT_LIMIT[r["wire"]] if "wire" in r else 253
            vals = [v for v in vals if v < lim]
            if vals:
                bias[sw["field"]] = vals
        tail_missing = False
        # a <dummy> is written only when nothing else was: make "nothing else" likely when there is one
        hollow = any(i["tag"] == "dummy" for i in spec.Analysis.flatten_noswitch(body)) and draw(st.integers(0, 9)) < 4
        for name, ins, kind in _members_with_breaks(body):
            if kind == "break":
                tail_missing = False      # a <break> starts a new segment with its own optional tail
                continue
            if kind == "case_data":
                continue
            if kind == "field":
                if ins.get("value") is not None:
                    obj[name] = hard_value(self.an.resolve(ins["type"]), ins["value"])
                    continue
                if ins.get("optional"):
                    if tail_missing or draw(st.integers(0, 3)) == 0:
                        tail_missing = tail_missing or draw(st.integers(0, 4)) > 0
                        obj[name] = None
                        continue
                if hollow and ins.get("optional"):
                    obj[name] = None
                    tail_missing = True
                    continue
                if hollow and self.an.resolve(ins["type"])["kind"] == "string" and \
                        (ins.get("length") is None or not ins["length"].isdigit() or ins.get("padded")):
                    lf = spec.body_find(body, ins["length"]) if ins.get("length") and not ins["length"].isdigit() else None
                    if lf is None or lf.get("offset", 0) <= 0:
                        obj[name] = ""
                        continue
                obj[name] = self.scalar(draw, ins["type"], ins.get("length"), bool(ins.get("padded")),
                                        body, bias.get(name))
            else:
                if ins.get("optional"):
                    if tail_missing or draw(st.integers(0, 3)) == 0:
                        tail_missing = tail_missing or draw(st.integers(0, 4)) > 0
                        obj[name] = None
                        continue
                if hollow and (ins.get("length") is None or not ins["length"].isdigit()):
                    lf = spec.body_find(body, ins["length"]) if ins.get("length") else None
                    if lf is None or lf.get("offset", 0) <= 0:
                        obj[name] = []
                        continue
                obj[name] = self.array(draw, ins, body)
        for sw in switches:
            obj[sw["field"] + "_data"] = self.case_data(draw, sw, body, obj)
        return obj

    def array(self, draw, ins, scope):
        ln = ins.get("length")
        if ln is not None and ln.isdigit():
            n = int(ln)
        elif ln is not None:
            lf = spec.body_find(scope, ln)
            mx = max(0, max_value_of(lf["type"]) + lf.get("offset", 0))
            lo = min(max(0, lf.get("offset", 0)), mx)
            if self.big and mx <= 300 and self.an.resolve(ins["type"])["kind"] != "struct" \
                    and draw(st.integers(0, 29)) == 0:
                n = mx
            else:
                n = draw(st.integers(lo, max(lo, min(mx, lo + 4))))
        else:
            n = draw(st.integers(0, 4))
        return [self.scalar(draw, ins["type"]) for _ in range(n)]

    def case_data(self, draw, sw, body, obj):
        from .refinterp import Interp
        fins = spec.body_find(body, sw["field"])
        if fins["tag"] == "length":
            fv = None
            for i2 in spec.Analysis.flatten_noswitch(body):
                if i2["tag"] in ("field", "array") and i2.get("length") == fins["name"]:
                    v = obj.get(i2["name"])
                    fv = len(v) if v is not None else 0
        else:
            fv = obj.get(fins["name"])
        case = Interp(self.an).select_case(sw, fins, fv)
        if case is None or not case["body"]:
            return None
        d = self.body(draw, case["body"])
        d["__case__"] = spec.case_class_name(sw, case)
        return d


def _members_with_breaks(body, out=None):
    """spec.body_members plus ("", ins, "break") markers, in document order."""
    if out is None:
        out = []
    for ins in body:
        t = ins["tag"]
        if t == "field" and ins.get("name") is not None:
            out.append((ins["name"], ins, "field"))
        elif t == "array":
            out.append((ins["name"], ins, "array"))
        elif t == "switch":
            out.append((ins["field"] + "_data", ins, "case_data"))
        elif t == "break":
            out.append(("", ins, "break"))
        elif t == "chunked":
            _members_with_breaks(ins["body"], out)
    return out


def values(an, body, **kw):
    vg = ValueGen(an, **kw)
    return st.composite(lambda draw: vg.body(draw, body))()


# ----------------------------------------------------------------------------------------
# real instances

class Builder:
    def __init__(self, pkg, an):
        self.pkg = pkg
        self.an = an

    def enum_cls(self, name):
        decl, dir_ = self.an.types[name]
        import importlib
        return getattr(importlib.import_module(spec.module_of(name, dir_)), name)

    def conv(self, typ, v, array_as=None):
        if v is None:
            return None
        r = self.an.resolve(typ)
        if r["kind"] == "enum":
            return self.enum_cls(r["name"])(v)
        if r["kind"] == "struct":
            cls = self.pkg.cls([r["name"]], r["dir"])
            return self.build(cls, r["decl"]["body"], v)
        return v

    def kwargs(self, cls, body, obj):
        kw = {}
        for name, ins, kind in spec.body_members(body):
            if kind == "case_data":
                cd = obj.get(name)
                if cd is None:
                    kw[name] = None
                elif "__impostor__" in cd:
                    kw[name] = type(cd["__impostor__"], (), {"__module__": cls.__module__})()
                elif "__literal__" in cd:
                    kw[name] = {"tuple": (), "list": [], "str": "", "zero": 0, "false": False}[cd["__literal__"]]
                else:
                    sw = ins
                    case = next(c for c in sw["cases"] if spec.case_class_name(sw, c) == cd["__case__"])
                    ccls = getattr(cls, cd["__case__"])
                    kw[name] = self.build(ccls, case["body"], cd)
            elif kind == "array":
                v = obj.get(name)
                kw[name] = None if v is None else [self.conv(ins["type"], x) for x in v]
            elif ins.get("value") is not None:
                # the constructor argument of a hardcoded member is documented to be ignored: pass a decoy
                v = obj.get(name)
                if isinstance(v, bool):
                    kw[name] = not v
                elif isinstance(v, int):
                    kw[name] = v + 1 if v == 0 else v - 1
                elif isinstance(v, str):
                    kw[name] = ("".join("z" if ch != "z" else "q" for ch in v) or "decoy") + "+1"
                else:
                    kw[name] = v
            else:
                kw[name] = self.conv(ins["type"], obj.get(name))
        return kw

    def build(self, cls, body, obj):
        return cls(**self.kwargs(cls, body, obj))


def compare(an, body, real, ref, path="", sizes=True):
    """Field-by-field comparison of a real generated instance with an object tree.
    Returns None if equal, else a (path, expected, actual) triple."""
    for name, ins, kind in spec.body_members(body):
        p = f"{path}.{name}"
        try:
            rv = getattr(real, name)
        except Exception as e:  # noqa
            return (p, "attribute", f"{type(e).__name__}: {e}")
        ev = ref.get(name)
        if kind == "case_data":
            if ev is None:
                if rv is not None:
                    return (p, None, repr(rv))
                continue
            if rv is None or type(rv).__name__ != ev["__case__"]:
                return (p, ev["__case__"], type(rv).__name__)
            case = next(c for c in ins["cases"] if spec.case_class_name(ins, c) == ev["__case__"])
            d = compare(an, case["body"], rv, ev, p, sizes)
            if d:
                return d
            continue
        if kind == "array":
            if ev is None:
                if rv is not None:
                    return (p, None, repr(rv))
                continue
            if type(rv) is not tuple:
                return (p, "tuple", type(rv).__name__)
            if len(rv) != len(ev):
                return (p + ".len", len(ev), len(rv))
            for i, (a, b) in enumerate(zip(rv, ev)):
                d = _cmp_scalar(an, ins["type"], a, b, f"{p}[{i}]", sizes)
                if d:
                    return d
            continue
        d = _cmp_scalar(an, ins["type"], rv, ev, p, sizes)
        if d:
            return d
    if sizes and "__size__" in ref:
        try:
            bs = real.byte_size
        except Exception as e:  # noqa
            return (path + ".byte_size", ref["__size__"], f"{type(e).__name__}")
        if bs != ref["__size__"]:
            return (path + ".byte_size", ref["__size__"], bs)
    return None


def _cmp_scalar(an, typ, rv, ev, p, sizes):
    if ev is None:
        return None if rv is None else (p, None, repr(rv))
    r = an.resolve(typ)
    k = r["kind"]
    if k == "int":
        ok = type(rv) is int and rv == ev
    elif k == "bool":
        ok = type(rv) is bool and rv == ev
    elif k == "enum":
        ok = type(rv).__name__ == r["name"] and int(rv) == ev
    elif k == "string":
        ok = type(rv) is str and rv == ev
    elif k == "blob":
        ok = isinstance(rv, (bytes, bytearray)) and bytes(rv) == ev
    else:
        if type(rv).__name__ != r["name"]:
            return (p, r["name"], type(rv).__name__)
        return compare(an, r["decl"]["body"], rv, ev, p, sizes)
    return None if ok else (p, repr(ev), repr(rv))


# ----------------------------------------------------------------------------------------
# JSON round trip of object trees (bytes <-> {"$b": hex})

def to_json(o):
    if isinstance(o, (bytes, bytearray)):
        return {"$b": bytes(o).hex()}
    if isinstance(o, dict):
        return {k: to_json(v) for k, v in o.items()}
    if isinstance(o, (list, tuple)):
        return [to_json(x) for x in o]
    return o


def from_json(o):
    if isinstance(o, dict):
        if set(o.keys()) == {"$b"}:
            return bytes.fromhex(o["$b"])
        return {k: from_json(v) for k, v in o.items()}
    if isinstance(o, list):
        return [from_json(x) for x in o]
    return o
