"""Subprocess helper for C18: run the real generator under a given configuration.
argv: repo xml_root out_root walk_seed(int, 0 = natural order) twice(0/1) [paths(0 absolute, 1 = "." from inside the
XML directory, 2 = relative to the parent directory, 3 = with a trailing "/." and a doubled separator)]
Prints one JSON line {"ok": bool, "error": str|None}. PYTHONHASHSEED comes from the environment."""
import contextlib
import io
import json
import os
import sys
from pathlib import Path


def permuted_walk(seed):
    real_walk = os.walk

    def perm(lst, salt):
        # seed -1: ascending, seed -2: descending; otherwise a deterministic permutation derived
        # from (seed, salt) without the random module
        if seed == -1:
            return sorted(lst)
        if seed == -2:
            return sorted(lst, reverse=True)
        import hashlib
        return sorted(lst, key=lambda x: hashlib.blake2b(f"{seed}:{salt}:{x}".encode()).digest())

    def walk(top, *a, **kw):
        for root, dirs, files in real_walk(top, *a, **kw):
            dirs[:] = perm(dirs, root)
            yield root, dirs, perm(files, root)
    return walk


def main():
    repo, xml_root, out_root, walk_seed, twice = sys.argv[1:6]
    paths = int(sys.argv[6]) if len(sys.argv) > 6 else 0
    repo = os.path.abspath(repo)
    if paths == 1:
        out_root = os.path.abspath(out_root)
        os.chdir(xml_root)
        xml_root, out_root = ".", os.path.relpath(out_root)
    elif paths == 2:
        base = os.path.dirname(os.path.abspath(xml_root))
        xml_root, out_root = os.path.relpath(xml_root, base), os.path.relpath(out_root, base)
        os.chdir(base)
    elif paths == 3:
        xml_root = os.path.dirname(xml_root) + os.sep + os.sep + os.path.basename(xml_root) + os.sep + "."
    sys.path.insert(0, repo)
    sys.dont_write_bytecode = True
    from protocol_code_generator.generate import code_generator as gm
    if int(walk_seed):
        os.walk = permuted_walk(int(walk_seed))
    buf = io.StringIO()
    try:
        with contextlib.redirect_stdout(buf):
            g = gm.ProtocolCodeGenerator(Path(xml_root))
            g.generate(Path(out_root))
            if int(twice):
                g.generate(Path(out_root))
        print(json.dumps({"ok": True, "error": None}))
    except Exception as e:
        print(json.dumps({"ok": False, "error": f"{type(e).__name__}: {e}"}))


if __name__ == "__main__":
    main()
