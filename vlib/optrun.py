"""Runs pure library functions in a FRESH interpreter started with given flags (e.g. -O, -OO):
a configuration spot check used by C07, C08, C10 (C11 has its own). Jobs are JSON:
{"fn": "encode_number"|"decode_number"|"encode_string"|"decode_string"|"interleave"|"deinterleave"|
       "flip_msb"|"swap_multiples", "arg": int | hex string, "m": int (swap only)}
Results: int, hex string, or "raised <Type>"."""
import json
import subprocess
import sys

from .runner import REPO

_SUB = r"""
import sys, types, json
repo = sys.argv[1]
m = types.ModuleType('eolib'); m.__path__ = [repo + '/src/eolib']; sys.modules['eolib'] = m
import eolib.data as D
import eolib.encrypt as E
out = []
for job in json.load(sys.stdin):
    fn, arg = job['fn'], job['arg']
    try:
        if fn == 'encode_number':
            out.append(bytes(D.encode_number(arg)).hex())
        elif fn == 'decode_number':
            out.append(D.decode_number(bytes.fromhex(arg)))
        else:
            buf = bytearray.fromhex(arg)
            f = getattr(D, fn, None) or getattr(E, fn)
            if fn == 'swap_multiples':
                f(buf, job['m'])
            else:
                f(buf)
            out.append(bytes(buf).hex())
    except Exception as e:
        out.append('raised ' + type(e).__name__)
print(json.dumps(out))
"""


def run(jobs, flag):
    r = subprocess.run([sys.executable, "-B", flag, "-c", _SUB, REPO], input=json.dumps(jobs),
                       capture_output=True, text=True)
    if r.returncode != 0:
        raise RuntimeError(f"python {flag} helper failed: {r.stderr[-800:]}")
    return json.loads(r.stdout.strip().splitlines()[-1])
