"""Runs pure library functions in a FRESH interpreter started with given flags (e.g. -O, -OO):
a configuration spot check used by C07, C08, C10 (C11 has its own). Jobs are JSON:
{"fn": "encode_number"|"decode_number"|"encode_string"|"decode_string"|"interleave"|"deinterleave"|
       "flip_msb"|"swap_multiples", "arg": int | hex string, "m": int (swap only)}
Results: int, hex string, or "raised <Type>"."""
import json
import os
import re
import subprocess
import sys

from .runner import REPO

_SUB = r"""
import sys, types, json
repo = sys.argv[1]
m = types.ModuleType('eolib'); m.__path__ = [repo + '/src/eolib']; sys.modules['eolib'] = m
import eolib.data as D
import eolib.encrypt as E
out = []
def one(job):
    fn, arg = job['fn'], job['arg']
    try:
        if fn == 'encode_number':
            return bytes(D.encode_number(arg)).hex()
        elif fn == 'decode_number':
            return D.decode_number(bytes.fromhex(arg))
        else:
            buf = bytearray.fromhex(arg)
            f = getattr(D, fn, None) or getattr(E, fn)
            if fn == 'swap_multiples':
                f(buf, job['m'])
            else:
                f(buf)
            return bytes(buf).hex()
    except Exception as e:
        return 'raised ' + type(e).__name__
jobs = json.load(sys.stdin)
T = int(sys.argv[2]) if len(sys.argv) > 2 else 0
if T <= 1:
    out = [one(j) for j in jobs]
else:
    # the very first calls into the library in this process come from T threads at once
    import threading
    sys.setswitchinterval(1e-5)
    out = [None] * len(jobs)
    bar = threading.Barrier(T)
    def work(t):
        bar.wait()
        for i in range(t, len(jobs), T):
            out[i] = one(jobs[i])
    ths = [threading.Thread(target=work, args=(t,)) for t in range(T)]
    for th in ths: th.start()
    for th in ths: th.join()
print(json.dumps(out))
"""


def library_fault(stderr):
    """A flagged helper interpreter died: was it the library? True when the innermost traceback frame lies in
    the repository under test (e.g. a module-level statement that needs docstrings fails under -OO). The
    helper itself runs unchanged under every flag on the unchanged tree, so such a failure says "the library
    cannot be used under this interpreter configuration" - a violation of the property's totality, not a
    harness error. Anything else (frame in the helper, in /verif, in the standard library) stays a harness error."""
    frames = re.findall(r'File "([^"]+)", line \d+', stderr or "")
    return bool(frames) and os.path.abspath(frames[-1]).startswith(os.path.abspath(REPO) + os.sep)


def fault_line(stderr):
    lines = [l for l in (stderr or "").strip().splitlines() if l.strip()]
    return lines[-1][:300] if lines else ""


def run(jobs, flag, threads=0):
    """flag: interpreter flag ("-O", "-OO", or "-B" for none); threads > 1: the jobs are the process' FIRST
    calls into the library and are issued by that many threads released together."""
    r = subprocess.run([sys.executable, "-B", flag, "-c", _SUB, REPO, str(threads)], input=json.dumps(jobs),
                       capture_output=True, text=True)
    if r.returncode != 0:
        if library_fault(r.stderr):
            # every job "raised": the callers compare with their oracle and report the first mismatch
            return ["library unusable under python %s: %s" % (flag, fault_line(r.stderr))] * len(jobs)
        raise RuntimeError(f"python {flag} helper failed: {r.stderr[-800:]}")
    return json.loads(r.stdout.strip().splitlines()[-1])
