"""Campaign runner shared by all checks.

A check module (checks/cXX.py) provides:

    PROPERTY   = "C07"
    LEVEL      = "exploration"
    RULE       = "<how cases are generated and what makes one non-trivial>"
    ASSUMPTIONS = [...]
    def selftest() -> None              # reference-model self test; raise on failure (exit 2)
    def plan(tier, seed) -> [task, ...] # picklable task dicts
    def run_task(task) -> TaskResult    # executed in a worker process
    def replay(case) -> None            # raises Violation if the pinned case fails
    def finalize(merged, tier) -> None  # optional: add warnings / degraded detection

Exit codes: 0 held (KNOWN-FINDING lines allowed) / 1 VIOLATION / 2 harness error.
"""

import hashlib
import json
import multiprocessing
import os
import sys
import time
import traceback
from collections import Counter
from concurrent.futures import ProcessPoolExecutor

VERIF = os.path.dirname(os.path.dirname(os.path.abspath(__file__)))
REPO = os.environ.get("VERIF_REPO", "/repo")
NPROC = int(os.environ.get("VERIF_NPROC", "16"))


class Violation(Exception):
    """A counterexample to a property: `clause` names the oracle clause that failed,
    `case` is a JSON value sufficient for replay(case)."""

    def __init__(self, clause, case, expected=None, actual=None, detail=""):
        super().__init__(f"{clause}: expected={expected!r} actual={actual!r} {detail}")
        self.clause = clause
        self.case = case
        self.expected = expected
        self.actual = actual
        self.detail = detail

    def to_json(self):
        return {
            "clause": self.clause,
            "case": self.case,
            "expected": _jsonable(self.expected),
            "actual": _jsonable(self.actual),
            "detail": self.detail,
        }


class HarnessError(Exception):
    pass


def _jsonable(v):
    try:
        json.dumps(v)
        return v
    except TypeError:
        return repr(v)


def h64(obj):
    """Stable 64-bit hash of a JSON-able / bytes / str value (for distinct counting)."""
    if isinstance(obj, (bytes, bytearray)):
        b = bytes(obj)
    elif isinstance(obj, str):
        b = obj.encode("utf-8", "surrogatepass")
    else:
        b = json.dumps(obj, sort_keys=True, default=repr).encode("utf-8", "surrogatepass")
    return int.from_bytes(hashlib.blake2b(b, digest_size=8).digest(), "big")


class TaskResult:
    """Accumulator filled in by a worker; merged by the parent."""

    def __init__(self):
        self.evaluations = 0
        self.nt_hashes = set()      # hashes of distinct non-trivial cases
        self.nt_count = 0           # non-trivial cases that are distinct by construction
        self.labels = Counter()
        self.samples = []
        self.violations = []        # list of Violation.to_json()
        self.warnings = []
        self.extra = {}             # check specific, merged by summing ints / extending lists
        self.shards_total = 0
        self.shards_done = 0

    def sample(self, s, limit=4):
        if len(self.samples) < limit:
            self.samples.append(_jsonable(s))

    def nontrivial(self, case_repr):
        self.nt_hashes.add(h64(case_repr))

    def violation(self, v):
        self.violations.append(v.to_json())

    def pack(self):
        return {
            "evaluations": self.evaluations,
            "nt_hashes": self.nt_hashes,
            "nt_count": self.nt_count,
            "labels": dict(self.labels),
            "samples": self.samples,
            "violations": self.violations,
            "warnings": self.warnings,
            "extra": self.extra,
            "shards_total": self.shards_total,
            "shards_done": self.shards_done,
        }


def _merge(packs):
    m = {
        "evaluations": 0, "nt_hashes": set(), "nt_count": 0, "labels": Counter(),
        "samples": [], "violations": [], "warnings": [], "extra": {},
        "shards_total": 0, "shards_done": 0,
    }
    for p in packs:
        m["evaluations"] += p["evaluations"]
        m["nt_hashes"] |= p["nt_hashes"]
        m["nt_count"] += p["nt_count"]
        m["labels"].update(p["labels"])
        for s in p["samples"]:
            if len(m["samples"]) < 6:
                m["samples"].append(s)
        m["violations"].extend(p["violations"])
        m["warnings"].extend(p["warnings"])
        m["shards_total"] += p["shards_total"]
        m["shards_done"] += p["shards_done"]
        for k, v in p["extra"].items():
            if isinstance(v, (int, float)):
                m["extra"][k] = m["extra"].get(k, 0) + v
            elif isinstance(v, list):
                cur = m["extra"].setdefault(k, [])
                if len(cur) < 20:
                    cur.extend(v[: 20 - len(cur)])
            elif isinstance(v, dict):
                cur = m["extra"].setdefault(k, {})
                for kk, vv in v.items():
                    if isinstance(vv, (int, float)):
                        cur[kk] = cur.get(kk, 0) + vv
                    else:
                        cur.setdefault(kk, vv)
            elif isinstance(v, set):
                m["extra"].setdefault(k, set()).update(v)
            else:
                m["extra"].setdefault(k, v)
    return m


def _worker_entry(args):
    modname, task = args
    try:
        import faulthandler
        import signal
        faulthandler.register(signal.SIGUSR1, all_threads=True)   # kill -USR1 <pid> dumps the stack
        # whole-task guard: a runaway worker dumps its stack and dies (=> exit 2, harness error),
        # it is never reported as a violation
        limit = int(os.environ.get("VERIF_DEBUG_HANG") or (14400 if task.get("_tier") == "thorough" else 1500))
        faulthandler.dump_traceback_later(limit, exit=True)
        import importlib
        mod = importlib.import_module(modname)
        try:
            res = mod.run_task(task)
        finally:
            faulthandler.cancel_dump_traceback_later()
        return ("ok", res.pack())
    except BaseException:  # noqa: harness failure, never a violation
        return ("err", traceback.format_exc())


# ----------------------------------------------------------------------------------------
# known findings

def read_known_findings(prop):
    path = os.path.join(VERIF, "known_findings.txt")
    out = {"open": [], "fixed": []}
    if not os.path.exists(path):
        return out
    for line in open(path, encoding="utf-8"):
        line = line.strip()
        if not line or line.startswith("#"):
            continue
        kind, _, rest = line.partition(":")
        kind = kind.strip()
        if kind not in out:
            continue
        fields = {}
        words = rest.strip().split(" ")
        text = []
        for w in words:
            if "=" in w and w.split("=", 1)[0] in ("property", "id", "replay", "key", "commit"):
                k, v = w.split("=", 1)
                fields[k] = v
            else:
                text.append(w)
        fields["text"] = " ".join(text)
        if fields.get("property") == prop:
            out[kind].append(fields)
    return out


def violation_key(prop, vj):
    return f"{prop}:{vj['clause']}"


def write_replay(prop, vj):
    key = violation_key(prop, vj)
    d = os.path.join(VERIF, "replays")
    os.makedirs(d, exist_ok=True)
    name = f"{prop}-{hashlib.blake2b(key.encode(), digest_size=5).hexdigest()}.json"
    path = os.path.join(d, name)
    with open(path, "w", encoding="utf-8") as f:
        json.dump({"property": prop, "key": key, **vj}, f, indent=1, default=repr)
    return path


def run_check(mod, tier, seed, replay_path=None):
    prop = mod.PROPERTY
    t0 = time.time()
    try:
        if hasattr(mod, "selftest"):
            mod.selftest()
    except Violation:
        raise
    except BaseException:
        print(f"HARNESS-ERROR property={prop} selftest failed", flush=True)
        traceback.print_exc()
        return 2

    if replay_path is not None:
        data = json.load(open(replay_path, encoding="utf-8"))
        case = data["case"] if isinstance(data, dict) and "case" in data else data
        try:
            mod.replay(case)
        except Violation as v:
            print(f"replay still fails: {v}")
            print(f"VIOLATION property={prop} replay={replay_path}", flush=True)
            return 1
        print(f"replay passes: property={prop} {replay_path}")
        return 0

    n_viol_lines = 0
    known = read_known_findings(prop)
    known_open_keys = set()
    regression_cases = 0
    for kf in known["open"]:
        rp = os.path.join(VERIF, kf["replay"]) if "replay" in kf else None
        still = False
        if rp and os.path.exists(rp):
            data = json.load(open(rp, encoding="utf-8"))
            try:
                mod.replay(data["case"])
            except Violation:
                still = True
            regression_cases += 1
        if still:
            print(f"KNOWN-FINDING: property={prop} {kf['text']}", flush=True)
        if "key" in kf:
            known_open_keys.add(kf["key"])
    for kf in known["fixed"]:
        rp = os.path.join(VERIF, kf["replay"]) if "replay" in kf else None
        if rp and os.path.exists(rp):
            data = json.load(open(rp, encoding="utf-8"))
            regression_cases += 1
            try:
                mod.replay(data["case"])
            except Violation as v:
                print(f"regression of a repaired defect: {v}")
                print(f"VIOLATION property={prop} replay={rp}", flush=True)
                n_viol_lines += 1

    tasks = mod.plan(tier, seed)
    for t in tasks:
        if isinstance(t, dict):
            t.setdefault("_tier", tier)
    modname = mod.__name__
    packs = []
    errors = []
    if len(tasks) == 1 or NPROC == 1:
        for t in tasks:
            st, res = _worker_entry((modname, t))
            (packs if st == "ok" else errors).append(res)
    else:
        ctx = multiprocessing.get_context("fork")
        with ProcessPoolExecutor(max_workers=min(NPROC, len(tasks)), mp_context=ctx) as ex:
            for st, res in ex.map(_worker_entry, [(modname, t) for t in tasks]):
                (packs if st == "ok" else errors).append(res)
    if errors:
        print(f"HARNESS-ERROR property={prop} {len(errors)} worker(s) failed", flush=True)
        for e in errors[:3]:
            print(e)
        return 2

    m = _merge(packs)
    degraded = None
    if hasattr(mod, "finalize"):
        degraded = mod.finalize(m, tier)

    # violations: one line per distinct key
    seen = {}
    for vj in m["violations"]:
        k = violation_key(prop, vj)
        if k in known_open_keys:
            continue
        if k not in seen:
            seen[k] = vj
    for k, vj in sorted(seen.items()):
        path = write_replay(prop, vj)
        print(f"violation {k}: expected={vj['expected']!r} actual={vj['actual']!r} {vj['detail']}"[:1500])
        try:   # does the saved input alone reproduce it (in this process, which ran no campaign)?
            mod.replay(vj["case"])
            print("  note: the saved input does not fail when replayed alone - the failure depended on "
                  "state left behind by earlier cases of the same worker (the violation itself was observed)")
        except Violation:
            print("  replay of the saved input reproduces the failure")
        except BaseException as e:  # noqa
            print(f"  replay of the saved input raised {type(e).__name__}: {e}"[:300])
        print(f"VIOLATION property={prop} replay={path}", flush=True)
        n_viol_lines += 1

    distinct_nt = len(m["nt_hashes"]) + m["nt_count"]
    exhaustive = m["shards_total"] > 0 and m["shards_done"] == m["shards_total"] and \
        bool(getattr(mod, "EXHAUSTIVE", {}).get(tier))
    cov = {
        "evaluations": m["evaluations"],
        "distinct_nontrivial": distinct_nt,
        "rule": mod.RULE if isinstance(mod.RULE, str) else mod.RULE[tier],
        "samples": m["samples"] or ["<no sample recorded>"],
        "exhaustive": exhaustive,
        "labels": dict(sorted(m["labels"].items())),
        "shards_total": m["shards_total"],
        "shards_done": m["shards_done"],
        "regression_cases_replayed": regression_cases,
        "warnings": m["warnings"][:20],
    }
    if exhaustive:
        cov["exhaustive_over"] = getattr(mod, "EXHAUSTIVE", {}).get(tier)
    for k, v in m["extra"].items():
        cov[k] = sorted(v) if isinstance(v, set) else v
    ev = {
        "property_id": prop,
        "tier": tier,
        "seed": seed,
        "level": getattr(mod, "LEVEL", "exploration"),
        "coverage": cov,
        "assumptions": list(getattr(mod, "ASSUMPTIONS", [])),
        "wall_s": round(time.time() - t0, 2),
        "violations": n_viol_lines,
    }
    # evidence/ describes the repository itself: a run against another tree (VERIF_REPO=<scratch copy>, as the
    # tools that evaluate deliberate breaks do) leaves it alone and writes beside the replays instead
    ev_dir = os.path.join(VERIF, "evidence")
    if os.path.realpath(REPO) != os.path.realpath("/repo"):
        ev_dir = os.path.join(VERIF, "replays", "evidence-other-tree")
        ev["repository"] = REPO
    os.makedirs(ev_dir, exist_ok=True)
    with open(os.path.join(ev_dir, f"{prop}.json"), "w", encoding="utf-8") as f:
        json.dump(ev, f, indent=1, default=repr)
        f.write("\n")

    print(f"{prop} tier={tier} seed={seed}: evaluations={m['evaluations']} "
          f"distinct_nontrivial={distinct_nt} violations={n_viol_lines} "
          f"wall={ev['wall_s']}s", flush=True)
    if n_viol_lines:
        return 1
    if degraded:
        print(f"HARNESS-ERROR property={prop} generator degraded: {degraded}", flush=True)
        return 2
    if m["evaluations"] == 0 or distinct_nt < 2:
        print(f"HARNESS-ERROR property={prop} vacuous run", flush=True)
        return 2
    return 0
