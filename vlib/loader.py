"""Loading the code under test from /repo's current working tree (DESIGN 2.2).

core(): hand-written half only, through stub parent packages, so the core checks do not
depend on the (absent) generated package or on the health of the code generator.
"""

import importlib
import os
import sys
import types

from .runner import REPO

SRC = os.path.join(REPO, "src")

sys.dont_write_bytecode = True


def purge_eolib():
    for k in [k for k in sys.modules if k == "eolib" or k.startswith("eolib.")]:
        del sys.modules[k]
    importlib.invalidate_caches()


_core = None


def core():
    """Returns a namespace with data, encrypt, packet, enum_meta, serialization_error modules."""
    global _core
    if _core is not None:
        return _core
    purge_eolib()
    # Make sure the editable install of /repo (or anything else) cannot shadow the tree under test.
    pkg = types.ModuleType("eolib")
    pkg.__path__ = [os.path.join(SRC, "eolib")]
    pkg.__package__ = "eolib"
    sys.modules["eolib"] = pkg
    prot = types.ModuleType("eolib.protocol")
    prot.__path__ = [os.path.join(SRC, "eolib", "protocol")]
    prot.__package__ = "eolib.protocol"
    sys.modules["eolib.protocol"] = prot
    pkg.protocol = prot
    ns = types.SimpleNamespace()
    ns.data = importlib.import_module("eolib.data")
    ns.encrypt = importlib.import_module("eolib.encrypt")
    ns.packet = importlib.import_module("eolib.packet")
    ns.enum_meta = importlib.import_module("eolib.protocol.protocol_enum_meta")
    ns.serialization_error = importlib.import_module("eolib.protocol.serialization_error")
    ns.number = importlib.import_module("eolib.data.number_encoding_utils")
    ns.string = importlib.import_module("eolib.data.string_encoding_utils")
    ns.reader = importlib.import_module("eolib.data.eo_reader")
    ns.writer = importlib.import_module("eolib.data.eo_writer")
    ns.limits = importlib.import_module("eolib.data.eo_numeric_limits")
    ns.encryption_utils = importlib.import_module("eolib.encrypt.encryption_utils")
    ns.verification = importlib.import_module("eolib.encrypt.server_verification_utils")
    ns.sequencer = importlib.import_module("eolib.packet.packet_sequencer")
    ns.sequence_start = importlib.import_module("eolib.packet.sequence_start")
    for m in (ns.data, ns.number, ns.reader, ns.writer, ns.verification, ns.sequence_start):
        f = os.path.realpath(m.__file__)
        if not f.startswith(os.path.realpath(SRC) + os.sep):
            raise RuntimeError(f"loaded {m.__name__} from {f}, not from {SRC}")
    _core = ns
    return ns
