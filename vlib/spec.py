"""Protocol specification trees: a JSON intermediate representation (IR), XML rendering and
static analysis (type resolution, fixed size, boundedness, class paths).

IR
  tree  = {"files": {dir: [decl, ...]}}       dir in DIRS ("" is the root)
  decl  = {"kind": "enum",   "name", "type", "values": [{"name", "ord", "comment"?}], "comment"?}
        | {"kind": "struct", "name", "body": [instr...], "comment"?}
        | {"kind": "packet", "family", "action", "body": [instr...], "comment"?}
  instr = {"tag": "field",  "name"|None, "type", "length"?: str, "padded"?: bool, "optional"?: bool,
                            "value"?: str, "comment"?}
        | {"tag": "array",  "name", "type", "length"?: str, "optional"?: bool, "delimited"?: bool,
                            "trailing"?: bool, "comment"?}
        | {"tag": "length", "name", "type", "offset"?: int, "optional"?: bool}
        | {"tag": "dummy",  "type", "value"}
        | {"tag": "switch", "field", "cases": [{"value"?: str, "default"?: bool, "body": [...], "comment"?}]}
        | {"tag": "chunked", "body": [...]}
        | {"tag": "break"}
A boolean attribute that is absent from the dict is absent from the XML (the default applies);
present -> spelled "true"/"false".
"""

from xml.sax.saxutils import escape, quoteattr

DIRS = ("", "pub", "pub/server", "map", "net", "net/client", "net/server")
INT_TYPES = ("byte", "char", "short", "three", "int")
INT_SIZE = {"byte": 1, "char": 1, "short": 2, "three": 3, "int": 4}
INT_LIMIT = {"byte": 256, "char": 253, "short": 253 ** 2, "three": 253 ** 3, "int": 253 ** 4}
BASIC = INT_TYPES + ("bool", "string", "encoded_string", "blob")


# ----------------------------------------------------------------------------------------
# XML rendering

def _attrs(pairs):
    out = ""
    for k, v in pairs:
        if v is None:
            continue
        if v is True:
            v = "true"
        elif v is False:
            v = "false"
        out += f" {k}={quoteattr(str(v))}"
    return out


def _comment(node, ind):
    c = node.get("comment")
    if c is None:
        return ""
    return f"{ind}<comment>{escape(c)}</comment>\n"


def _comment_last(node):
    """The position of <comment> among the children of a struct, packet or case is free (the generator looks it
    up by tag and filters instructions by tag): a third of the commented bodies carry it AFTER their
    instructions. Derived from the text, so the generators draw nothing extra."""
    c = node.get("comment")
    return bool(c) and (len(c) + ord(c[0])) % 3 == 0


def _with_comment(node, ind, body_text):
    com = _comment(node, ind)
    return body_text + com if _comment_last(node) else com + body_text


def _render_body(body, ind):
    out = ""
    for ins in body:
        t = ins["tag"]
        if t == "field":
            a = _attrs([("name", ins.get("name")), ("type", ins["type"]), ("length", ins.get("length")),
                        ("padded", ins.get("padded")), ("optional", ins.get("optional"))])
            val = ins.get("value")
            com = _comment(ins, ind + "  ")
            if val is None and not com:
                out += f"{ind}<field{a}/>\n"
            elif val is not None and com and ins.get("value_after_comment"):
                # pretty-printed layout: whitespace, the comment child, then the text (the comment's tail)
                out += f"{ind}<field{a}>\n{com}{ind}  {escape(val)}\n{ind}</field>\n"
            else:
                out += f"{ind}<field{a}>{escape(val) if val is not None else ''}"
                out += ("\n" + com + ind if com else "") + "</field>\n"
        elif t == "array":
            a = _attrs([("name", ins["name"]), ("type", ins["type"]), ("length", ins.get("length")),
                        ("optional", ins.get("optional")), ("delimited", ins.get("delimited")),
                        ("trailing-delimiter", ins.get("trailing"))])
            com = _comment(ins, ind + "  ")
            out += f"{ind}<array{a}>\n{com}{ind}</array>\n" if com else f"{ind}<array{a}/>\n"
        elif t == "length":
            a = _attrs([("name", ins["name"]), ("type", ins["type"]), ("offset", ins.get("offset")),
                        ("optional", ins.get("optional"))])
            out += f"{ind}<length{a}/>\n"
        elif t == "dummy":
            a = _attrs([("type", ins["type"])])
            out += f"{ind}<dummy{a}>{escape(ins['value'])}</dummy>\n"
        elif t == "switch":
            out += f"{ind}<switch{_attrs([('field', ins['field'])])}>\n"
            for c in ins["cases"]:
                a = _attrs([("value", c.get("value")), ("default", c.get("default"))])
                out += f"{ind}  <case{a}>\n" + _with_comment(c, ind + "    ", _render_body(c["body"], ind + "    "))
                out += f"{ind}  </case>\n"
            out += f"{ind}</switch>\n"
        elif t == "chunked":
            out += f"{ind}<chunked>\n" + _render_body(ins["body"], ind + "  ") + f"{ind}</chunked>\n"
        elif t == "break":
            out += f"{ind}<break/>\n"
        else:
            # raw XML escape hatch used by C17 edits
            out += ind + ins["raw"] + "\n"
    return out


def render_decl(d, ind="  "):
    k = d["kind"]
    if k == "enum":
        out = f"{ind}<enum{_attrs([('name', d.get('name')), ('type', d.get('type'))])}>\n"
        out += _comment(d, ind + "  ")
        for v in d["values"]:
            text = v["text"] if "text" in v else str(v["ord"])
            com = _comment(v, ind + "    ")
            a = _attrs([("name", v.get("name"))])
            if com and v.get("text_after_comment"):
                out += f"{ind}  <value{a}>\n{com}{ind}    {escape(text)}\n{ind}  </value>\n"
            elif com:
                out += f"{ind}  <value{a}>{escape(text)}\n{com}{ind}  </value>\n"
            else:
                out += f"{ind}  <value{a}>{escape(text)}</value>\n"
        return out + f"{ind}</enum>\n"
    if k == "struct":
        out = f"{ind}<struct{_attrs([('name', d['name'])])}>\n"
        return out + _with_comment(d, ind + "  ", _render_body(d["body"], ind + "  ")) + f"{ind}</struct>\n"
    if k == "packet":
        out = f"{ind}<packet{_attrs([('family', d['family']), ('action', d['action'])])}>\n"
        return out + _with_comment(d, ind + "  ", _render_body(d["body"], ind + "  ")) + f"{ind}</packet>\n"
    raise ValueError(k)


def render_tree(tree):
    """-> {relative xml path: text}"""
    out = {}
    for d in DIRS:
        decls = tree["files"].get(d, [])
        text = '<?xml version="1.0" encoding="UTF-8"?>\n<protocol>\n'
        for decl in decls:
            text += render_decl(decl)
        text += "</protocol>\n"
        out[(d + "/" if d else "") + "protocol.xml"] = text
    return out


def restyle(text, k):
    """The same XML document in another spelling (bits of k): CRLF line ends, XML comments between elements,
    attributes in reverse order, single-quoted attributes, <x></x> instead of <x/>, a byte order mark, no XML
    declaration; bits 7-8: declared character encoding (UTF-8, windows-1252, UTF-16, ISO-8859-1 - the latter ones
    only when every character fits). Returns the BYTES of the file. Raises AssertionError if the re-parsed document
    differs from the original one (harness self-check)."""
    from xml.etree import ElementTree as ET
    root = ET.fromstring(text)
    crlf, comments, rev, single, expand, bom, nodecl = (bool(k & (1 << i)) for i in range(7))
    q = "'" if single else '"'

    def et(s):
        return s.replace("&", "&amp;").replace("<", "&lt;").replace(">", "&gt;")

    def ea(s):
        s = et(s).replace("\n", "&#10;").replace("\t", "&#9;")
        return s.replace("'", "&apos;") if single else s.replace('"', "&quot;")

    out = []

    def ser(el):
        attrs = list(el.attrib.items())
        if rev:
            attrs.reverse()
        out.append("<" + el.tag + "".join(f" {a}={q}{ea(v)}{q}" for a, v in attrs))
        if not el.text and len(el) == 0 and not expand:
            out.append("/>")
            return
        out.append(">" + et(el.text or ""))
        for i, ch in enumerate(el):
            if comments and (i + len(el.tag)) % 2 == 0:
                out.append("<!-- reviewed: " + ch.tag + " -->")
            ser(ch)
            out.append(et(ch.tail or ""))
        out.append("</" + el.tag + ">")

    ser(root)
    res = ("" if nodecl else '<?xml version="1.0" encoding="UTF-8"?>\n') + "".join(out) + "\n"
    if comments:
        res = res.replace("<protocol>", "<!-- generated from the wiki -->\n<protocol>", 1) if not nodecl else res

    def norm(e):
        return (e.tag, sorted(e.attrib.items()), (e.text or ""), (e.tail or ""), [norm(c) for c in e])
    back = ET.fromstring(res)
    a, b = norm(root), norm(back)
    assert a[:3] == b[:3] and a[4] == b[4], "restyle changed the document"
    if crlf:
        res = res.replace("\n", "\r\n")
    enc = ("utf-8", "windows-1252", "utf-16", "iso-8859-1")[(k >> 7) & 3]
    if enc != "utf-8":
        try:
            body = res.split("?>", 1)[1] if not nodecl else res
            data = ('<?xml version="1.0" encoding="%s"?>' % enc.upper() + body).encode(enc)
            assert norm(ET.fromstring(data))[:3] == a[:3]
            return data
        except UnicodeEncodeError:
            pass
    if bom:
        res = "\ufeff" + res
    return res.encode("utf-8")


# ----------------------------------------------------------------------------------------
# naming

def pascal_to_snake(name):
    """Own implementation of the documented convention (acronym aware): FooBar -> foo_bar,
    NPCType -> npc_type, Item2 -> item2."""
    out = ""
    for i, c in enumerate(name):
        if i > 0 and c.isupper():
            nxt_lower = i + 1 < len(name) and not name[i + 1].isupper()
            prev_lower = name[i - 1].islower()
            if nxt_lower or prev_lower:
                out += "_"
        out += c.lower()
    return out


def snake_to_pascal(name):
    return "".join(p[:1].upper() + p[1:].lower() for p in name.split("_"))


def packet_class_name(d, dir_):
    return d["family"] + d["action"] + ("ClientPacket" if dir_ == "net/client" else "ServerPacket")


def decl_class_name(d, dir_):
    return packet_class_name(d, dir_) if d["kind"] == "packet" else d["name"]


def module_of(name, dir_):
    base = "eolib.protocol._generated"
    if dir_:
        base += "." + dir_.replace("/", ".")
    return base + "." + pascal_to_snake(name)


def public_package_of(dir_):
    return "eolib.protocol" + ("." + dir_.replace("/", ".") if dir_ else "")


# ----------------------------------------------------------------------------------------
# analysis

class Analysis:
    def __init__(self, tree):
        self.tree = tree
        self.types = {}      # name -> (decl, dir)
        for d in DIRS:
            for decl in tree["files"].get(d, []):
                if decl["kind"] in ("enum", "struct"):
                    self.types[decl["name"]] = (decl, d)
        self._fixed = {}
        self._bounded = {}

    # -- type strings --------------------------------------------------------
    def resolve(self, type_str):
        """-> dict(kind=int|bool|enum|string|blob|struct, wire=<int type>|None, name, decl)"""
        base, _, over = type_str.partition(":")
        if base in INT_TYPES:
            return {"kind": "int", "wire": base, "name": base}
        if base == "bool":
            return {"kind": "bool", "wire": over or "char", "name": "bool"}
        if base in ("string", "encoded_string"):
            return {"kind": "string", "encoded": base == "encoded_string", "name": base}
        if base == "blob":
            return {"kind": "blob", "name": "blob"}
        decl, dir_ = self.types[base]
        if decl["kind"] == "enum":
            return {"kind": "enum", "wire": over or decl["type"], "name": base, "decl": decl, "dir": dir_}
        return {"kind": "struct", "name": base, "decl": decl, "dir": dir_}

    def type_fixed_size(self, type_str, length=None):
        r = self.resolve(type_str)
        k = r["kind"]
        if k in ("int", "bool", "enum"):
            return INT_SIZE[r["wire"]]
        if k == "string":
            return int(length) if (length is not None and length.isdigit()) else None
        if k == "blob":
            return None
        return self.struct_fixed_size(r["name"])

    def type_bounded(self, type_str, length=None):
        r = self.resolve(type_str)
        k = r["kind"]
        if k in ("int", "bool", "enum"):
            return True
        if k == "string":
            return length is not None
        if k == "blob":
            return False
        return self.struct_bounded(r["name"])

    @staticmethod
    def flatten(body, out=None):
        if out is None:
            out = []
        for ins in body:
            out.append(ins)
            if ins["tag"] == "chunked":
                Analysis.flatten(ins["body"], out)
            elif ins["tag"] == "switch":
                for c in ins["cases"]:
                    Analysis.flatten(c["body"], out)
        return out

    def struct_fixed_size(self, name):
        if name in self._fixed:
            return self._fixed[name]
        decl, _ = self.types[name]
        size = 0
        for ins in self.flatten(decl["body"]):
            t = ins["tag"]
            s = 0
            if t == "field":
                s = self.type_fixed_size(ins["type"], ins.get("length"))
                if ins.get("optional"):
                    s = None
            elif t == "array":
                ln = ins.get("length")
                if ln is None or not ln.isdigit():
                    s = None
                else:
                    es = self.type_fixed_size(ins["type"])
                    s = None if (es is None or ins.get("optional") or ins.get("delimited")) else int(ln) * es
            elif t == "dummy":
                s = self.type_fixed_size(ins["type"])
            elif t in ("chunked", "switch"):
                s = None
            if s is None:
                size = None
                break
            size += s
        self._fixed[name] = size
        return size

    def struct_bounded(self, name):
        if name in self._bounded:
            return self._bounded[name]
        decl, _ = self.types[name]
        res = True
        for ins in self.flatten(decl["body"]):
            t = ins["tag"]
            if not res:
                res = t == "break"
                continue
            if t == "field":
                res = self.type_bounded(ins["type"], ins.get("length"))
            elif t == "array":
                res = self.type_bounded(ins["type"]) and ins.get("length") is not None
            elif t == "dummy":
                res = self.type_bounded(ins["type"])
        self._bounded[name] = res
        return res

    def consumes_progress(self, type_str):
        """True if reading one element of this type with remaining > 0 always consumes >= 1 byte
        (conservative, syntactic)."""
        r = self.resolve(type_str)
        if r["kind"] in ("int", "bool", "enum"):
            return True
        if r["kind"] in ("string", "blob"):
            return True   # unbounded read takes everything that remains (>0)
        body = r["decl"]["body"]
        return self._body_progress(body)

    def _body_progress(self, body):
        for ins in body:
            t = ins["tag"]
            if t == "chunked":
                return self._body_progress(ins["body"])
            if t in ("length",):
                return True
            if t in ("field", "dummy"):
                r = self.resolve(ins["type"])
                if r["kind"] in ("int", "bool", "enum"):
                    return True
                if r["kind"] == "string":
                    ln = ins.get("length")
                    if ln is None:
                        return True
                    return ln.isdigit() and int(ln) >= 1
                if r["kind"] == "blob":
                    return True
                if r["kind"] == "struct":
                    return self.consumes_progress(ins["type"])
            return False
        return False

    # -- class paths ---------------------------------------------------------
    def classes(self):
        """Yields (path, dir, top_decl, body, lex_chunked_at_entry) for every generated class:
        path = [TopName] or [TopName, SwitchPascal+'Data'+Value, ...]."""
        out = []
        for d in DIRS:
            for decl in self.tree["files"].get(d, []):
                if decl["kind"] == "enum":
                    continue
                top = decl_class_name(decl, d)
                self._walk_classes([top], d, decl, decl["body"], False, out)
        return out

    def _walk_classes(self, path, dir_, decl, body, lex, out):
        out.append({"path": list(path), "dir": dir_, "decl": decl, "body": body, "lex": lex})
        self._walk_body(path, dir_, decl, body, lex, out)

    def _walk_body(self, path, dir_, decl, body, lex, out):
        for ins in body:
            if ins["tag"] == "chunked":
                self._walk_body(path, dir_, decl, ins["body"], True, out)
            elif ins["tag"] == "switch":
                for c in ins["cases"]:
                    if c["body"]:
                        self._walk_classes(path + [case_class_name(ins, c)], dir_, decl, c["body"], lex, out)


def case_class_name(switch, case):
    return snake_to_pascal(switch["field"]) + "Data" + ("Default" if case.get("default") else case["value"])


def body_members(body, out=None):
    """Constructor parameters of a body in declaration order:
    [(name, instr, kind)] with kind in field|array|case_data; length fields and unnamed excluded."""
    if out is None:
        out = []
    for ins in body:
        t = ins["tag"]
        if t == "field" and ins.get("name") is not None:
            out.append((ins["name"], ins, "field"))
        elif t == "array":
            out.append((ins["name"], ins, "array"))
        elif t == "switch":
            out.append((ins["field"] + "_data", ins, "case_data"))
        elif t == "chunked":
            body_members(ins["body"], out)
    return out


def body_find(body, name):
    for ins in body:
        if ins["tag"] in ("field", "array", "length") and ins.get("name") == name:
            return ins
        if ins["tag"] == "chunked":
            r = body_find(ins["body"], name)
            if r is not None:
                return r
    return None


def tree_features(tree):
    """Label set describing which constructs a tree contains."""
    f = set()
    an = Analysis(tree)
    ndirs = 0
    for d in DIRS:
        decls = tree["files"].get(d, [])
        if decls:
            ndirs += 1
        for decl in decls:
            f.add("decl_" + decl["kind"])
            if decl["kind"] == "enum":
                continue
            for ins in Analysis.flatten(decl["body"]):
                t = ins["tag"]
                f.add(t)
                if t in ("field", "array"):
                    if ins.get("optional"):
                        f.add("optional")
                    if ":" in ins["type"]:
                        f.add("underlying_override")
                    base = ins["type"].partition(":")[0]
                    if base in an.types:
                        if an.types[base][1] != d:
                            f.add("cross_file_ref")
                        f.add("ref_" + an.types[base][0]["kind"])
                    ln = ins.get("length")
                    if ln is not None:
                        f.add("length_literal" if ln.isdigit() else "length_ref")
                    if ins.get("padded"):
                        f.add("padded")
                    if ins.get("delimited"):
                        f.add("delimited")
                        if ins.get("trailing") is False:
                            f.add("no_trailing_delimiter")
                    if ins.get("value") is not None:
                        f.add("hardcoded_named" if ins.get("name") else "hardcoded_unnamed")
                if t == "switch":
                    if any(c.get("default") for c in ins["cases"]):
                        f.add("switch_default")
                    if any(not c["body"] for c in ins["cases"]):
                        f.add("empty_case")
    if ndirs >= 3:
        f.add("dirs>=3")
    return f
