"""Subprocess helper for C18/C20: import the package in a FRESH interpreter and evaluate the
export/identity predicates. argv: root spec_json_path. Prints one JSON line."""
import importlib
import json
import sys
import traceback


def main():
    root, spec_path = sys.argv[1:3]
    req = json.load(open(spec_path))
    sys.path.insert(0, root)
    sys.dont_write_bytecode = True
    out = {"import_error": None, "problems": []}
    try:
        for first in req.get("first_imports", []):
            importlib.import_module(first)
        eolib = importlib.import_module("eolib")
    except BaseException as e:
        out["import_error"] = f"{type(e).__name__}: {e}"
        out["traceback"] = traceback.format_exc()[-1500:]
        print(json.dumps(out))
        return
    if not eolib.__file__.startswith(root):
        out["problems"].append(["eolib_origin", eolib.__file__])
    # (1) declared types: class, __module__, reachable from public package and from eolib
    for t in req.get("types", []):
        name, module, public = t["name"], t["module"], t["public"]
        try:
            m = importlib.import_module(module)
            obj = getattr(m, name)
        except BaseException as e:
            out["problems"].append(["defining_module", name, f"{type(e).__name__}: {e}"])
            continue
        if not isinstance(obj, type):
            out["problems"].append(["not_a_class", name, repr(obj)])
            continue
        if obj.__module__ != module:
            out["problems"].append(["__module__", name, obj.__module__, module])
        pub = sys.modules.get(public)
        if pub is None:
            try:
                pub = importlib.import_module(public)
            except BaseException as e:
                out["problems"].append(["public_package_import", public, f"{type(e).__name__}: {e}"])
                continue
        if getattr(pub, name, None) is not obj:
            out["problems"].append(["not_exported_from_subpackage", name, public, repr(getattr(pub, name, None))])
        if getattr(eolib, name, None) is not obj:
            out["problems"].append(["not_exported_from_eolib", name, repr(getattr(eolib, name, None))])
    # (2) module paths: attribute walk from eolib must give sys.modules[path]
    for path in req.get("module_paths", []):
        try:
            importlib.import_module(path)
        except BaseException as e:
            out["problems"].append(["module_import", path, f"{type(e).__name__}: {e}"])
            continue
        obj = eolib
        ok = True
        for part in path.split(".")[1:]:
            try:
                obj = getattr(obj, part)
            except AttributeError:
                out["problems"].append(["attr_walk_missing", path, part])
                ok = False
                break
        if ok and obj is not sys.modules[path]:
            out["problems"].append(["attr_walk_identity", path, getattr(obj, "__name__", repr(obj))])
    # (3) public names: home.name is eolib.name is defining-module object
    for n in req.get("public_names", []):
        home, name, defining = n["home"], n["name"], n["defining"]
        try:
            d = getattr(importlib.import_module(defining), name)
            h = getattr(importlib.import_module(home), name)
        except BaseException as e:
            out["problems"].append(["public_name_lookup", home, name, f"{type(e).__name__}: {e}"])
            continue
        top = getattr(eolib, name, None)
        if h is not d:
            out["problems"].append(["home_not_defining_object", home, name])
        if top is not d:
            out["problems"].append(["eolib_not_defining_object", name, repr(top)[:80]])
    print(json.dumps(out))


if __name__ == "__main__":
    main()
