"""Grammar-based Hypothesis generator of protocol specification trees (DESIGN 4.1).

Construction, not rejection: every tree returned is meant to be accepted by the real
generator. `features` switches individual constructs off (used to exclude known findings by
construction, counted by the caller).
"""

import keyword

from hypothesis import strategies as st

from . import spec
from .spec import DIRS, INT_TYPES, INT_LIMIT

LAYER = {d: i for i, d in enumerate(DIRS)}

DEFAULT_FEATURES = {
    "optional_array": True,        # D4
    "optional_lenref": True,       # D8: optional member governed by a length field
    "optional_length_field": True,
    "case_optional_after_parent_optional": True,   # D5
    "hardcoded_named": True,       # D6
    "hardcoded_special_chars": True,   # D6: quotes / backslashes in hardcoded strings
    "empty_body": True,            # D10
    "explicit_false": True,        # D3: optional="false" etc. spelled out
    "comments": True,
    "comment_special_chars": True,   # D13: backslashes / triple quotes in comments
    "empty_enum": True,              # D9: an <enum> without values
    "free_directory_refs": True,     # any acyclic directory reference graph (else the fixed layering)
}

FIELD_NAMES = [
    "a", "b", "c", "x", "y", "z", "w", "h", "id", "hp", "tp", "foo", "bar", "baz", "name", "level",
    "kind", "mode", "flags", "count", "item_id", "npc_type", "gold", "amount", "slot", "title",
    "guild_tag", "spell", "dir", "coords", "session", "reply_code", "warp_type", "file_type",
    "x1", "y2", "sub_loc", "map_id", "player_id", "s", "n", "k", "v", "p", "q", "r", "t", "u",
    "exp", "usage", "weight", "max_hp", "min_dam", "items", "chars", "entries", "list", "rows",
    # identifiers a code generator is likely to use for its own locals some day
    "index", "idx", "j", "length", "size", "value", "item", "element", "elem", "key", "type", "obj", "cls",
    "start", "end", "pos", "position", "offset", "remaining", "chunk", "buf", "tmp", "ret", "res", "out",
    "val", "arr", "array", "field", "struct", "packet", "e", "o", "d", "m", "l", "text", "string", "number",
    "itemID", "hpMax", "a__b",
]
# never generated: names the generated code uses itself
RESERVED = {"i", "reader", "writer", "data", "result", "byte_size", "serialize", "deserialize",
            "family", "action", "write", "cast", "reached_missing_optional", "self", "len", "range",
            "int", "str", "bool", "bytes", "tuple", "repr", "isinstance", "reader_start_position",
            "old_writer_length", "old_string_sanitization_mode", "old_chunked_reading_mode"}
FIELD_NAMES = [n for n in FIELD_NAMES if n not in RESERVED and not keyword.iskeyword(n)
               and not keyword.issoftkeyword(n) and not n.endswith(("_data", "_length"))
               and not n.startswith("old_")]

# legal for members of structs (and of their case bodies) only: packets define methods with these names
STRUCT_ONLY_NAMES = ["write", "family", "action"]

TYPE_WORDS = ["Item", "Npc", "NPC", "Coords", "Big", "Thing", "Info", "Map", "Char", "Stats", "Spell",
              "Type", "Reply", "File", "Warp", "Skill", "Shop", "Trade", "Entry", "Row", "A", "B2",
              "HTTP", "Id", "Pair", "Tile", "Spec", "Gfx", "Rec", "Emf", "Eif", "Level", "Guild",
              # words that coincide with package / directory names of the static half: as prefixes they
              # exercise relative-import computation, alone they exercise attribute shadowing
              "Data", "Encrypt", "Protocol", "Client", "Server", "Net", "Pub", "Packet",
              # soft keywords of the interpreter as module names (match.py, case.py, type.py)
              "Match", "Case", "Vec2D", "SHA256",
              # module names of the standard library that package __init__ files like to import
              "Sys", "Os", "Typing", "Types", "Io", "Re", "Abc", "Json"]
# a type whose module name equals a subdirectory of its own directory cannot exist on disk
SUBDIRS = {"": {"net", "map", "pub"}, "net": {"client", "server"}, "pub": {"server"}}
# type names that would collide with names the static package or generated modules use
BAD_TYPE_NAMES = {"Packet", "PacketFamily", "PacketAction", "EoReader", "EoWriter", "Optional", "Union",
                  "Iterable", "IntEnum", "ProtocolEnumMeta", "SerializationError", "SequenceStart",
                  "PacketSequencer"}
MEMBER_WORDS = ["Red", "Green", "Blue", "None", "Ok", "Busy", "Full", "North", "South", "Admin", "Hgm",
                "Init", "Go", "Take", "Use", "Open", "Close", "Ping", "Pong", "Msg", "Walk", "Face",
                "Add", "Remove", "Agree", "Player", "NPC", "Item2", "Spec", "Reply", "Accept", "Error"]

COMMENT_ALPHABET = "abc XYZ 09 & < > \" ' . , \n - ! ( )"
HARD_TEXT_SAFE = "abcXYZ019 .,-_!?()[]{}:;#@$%^*+=|/~'<>"


def _uniq_name(draw, pool, used, label):
    outer = getattr(used, "outer", None)
    if outer and draw(st.integers(0, 3)) == 0:
        free = sorted(n for n in outer if n not in used)
        if free:
            name = draw(st.sampled_from(free))
            used.add(name)
            return name
    base = draw(st.sampled_from(pool))
    if used and draw(st.integers(0, 11)) == 0:
        # a name built from a sibling's name: what a generator that derives its own locals from member names
        # (xs_count, xs_size, ...) has to keep apart
        sib = draw(st.sampled_from(sorted(used)))
        cand = sib + "_" + draw(st.sampled_from(["count", "size", "len", "index", "idx", "start", "end", "bytes", "value",
                                                 "values", "list", "tuple", "reader", "writer", "i", "n", "type"]))
        if cand not in RESERVED and not cand.endswith(("_data", "_length")):
            base = cand
    name = base
    k = 2
    while name in used:
        name = f"{base}{k}"
        k += 1
    used.add(name)
    return name


class _Names(set):
    """Names used in one body scope; `outer` = names of the enclosing body (a case body may reuse them),
    `outer_len` = literal lengths of the enclosing body's members by name."""

    def __init__(self, outer=None, outer_len=None):
        super().__init__()
        self.outer = set(outer or ())
        self.outer_len = dict(outer_len or {})


class _Gen:
    def __init__(self, draw, features):
        self.draw = draw
        self.f = features
        self.tree = {"files": {d: [] for d in DIRS}}
        self.an = spec.Analysis(self.tree)
        self.type_names = set()
        self.snake_by_dir = {d: set() for d in DIRS}
        self.decl_order = []   # (name, kind, dir)
        self.excluded = {}     # feature -> count of candidates dropped
        self.size = SIZES["quick"]
        # directory reference graph; the static package itself makes the packet directories depend on net
        self.dir_edges = {("net/client", "net"), ("net/server", "net")}
        self.field_pool = FIELD_NAMES
        self.almost_fixed = set()
        self.almost_fixed_pending = False

    def drop(self, feature):
        self.excluded[feature] = self.excluded.get(feature, 0) + 1

    # -- helpers ---------------------------------------------------------------
    def boolean(self, p=0.5):
        return self.draw(st.floats(0, 1, allow_nan=False)) < p

    def pick(self, seq):
        return self.draw(st.sampled_from(list(seq)))

    def weighted(self, pairs):
        total = sum(w for _, w in pairs)
        x = self.draw(st.integers(0, total - 1))
        for v, w in pairs:
            if x < w:
                return v
            x -= w
        return pairs[-1][0]

    def comment(self):
        if not self.f["comments"] or not self.boolean(0.15):
            return None
        if self.boolean(0.06):
            return ""           # <comment></comment>: present, but says nothing
        alpha = COMMENT_ALPHABET
        special = self.f["comment_special_chars"] and self.boolean(0.15)
        if special:
            alpha = COMMENT_ALPHABET + '\\\\""""uxN{'
        if self.boolean(0.12):
            alpha = alpha + "\u00e9\u20ac\u0416\u00ff"       # comments are prose: accents, currency signs, other scripts
        t = self.draw(st.text(alphabet=alpha, min_size=1, max_size=24))
        t = t.strip()
        if not t:
            return None
        if not self.f["comment_special_chars"] and ('"""' in t or "\\" in t):
            return None
        return t

    VARIANTS = (("Npc", "NPC"), ("Http", "HTTP"), ("Emf", "EMF"), ("Eif", "EIF"), ("Gfx", "GFX"), ("Id", "ID"))

    def new_type_name(self, dir_):
        if self.boolean(0.1):
            # NpcInfo in one directory, NPCInfo in another: different classes, same module stem
            cands = []
            for (n, k, d) in self.decl_order:
                if d == dir_ or n in ("PacketFamily", "PacketAction"):
                    continue
                for a, b in self.VARIANTS:
                    for x, y in ((a, b), (b, a)):
                        if x in n:
                            v = n.replace(x, y, 1)
                            sn = spec.pascal_to_snake(v)
                            if (v not in self.type_names and v not in BAD_TYPE_NAMES and sn == spec.pascal_to_snake(n)
                                    and sn not in self.snake_by_dir[dir_] and sn not in SUBDIRS.get(dir_, ())):
                                cands.append(v)
            if cands:
                cand = self.pick(sorted(set(cands)))
                self.type_names.add(cand)
                self.snake_by_dir[dir_].add(spec.pascal_to_snake(cand))
                return cand
        if self.boolean(0.08):
            # NpcKill and Npc_Kill in ONE directory: distinct classes, distinct module stems (npc_kill / npc__kill)
            cands = []
            for (n, k, d) in self.decl_order:
                if d != dir_ or n in ("PacketFamily", "PacketAction"):
                    continue
                for i in range(1, len(n)):
                    if n[i].isupper() and n[i - 1] != "_":
                        v = n[:i] + "_" + n[i:]
                        sn = spec.pascal_to_snake(v)
                        if (v not in self.type_names and sn not in self.snake_by_dir[dir_]
                                and not any(sn in s_ for s_ in self.snake_by_dir.values())):
                            cands.append(v)
            if cands:
                cand = self.pick(sorted(set(cands)))
                self.type_names.add(cand)
                self.snake_by_dir[dir_].add(spec.pascal_to_snake(cand))
                return cand
        for _ in range(50):
            n = self.draw(st.integers(1, 3))
            name = ("_" if self.boolean(0.04) else "").join(self.draw(st.sampled_from(TYPE_WORDS)) for _ in range(n))
            if dir_ and self.boolean(0.08):
                name = dir_.rpartition("/")[2].capitalize()      # pub/server declares Server, net declares Net
            elif dir_ in SUBDIRS and self.boolean(0.12):
                # a type of the parent directory whose name starts with the name of a sub-directory
                # (pub: ServerInfoKind next to pub/server): path arithmetic on module names must not confuse the two
                name = self.pick(sorted(SUBDIRS[dir_])).capitalize() + name
            if not name[0].isalpha():
                continue
            if self.boolean(0.04):
                low = name[0].lower() + name[1:]      # camelCase type names are names too
                # ... unless they spell a built-in type of the format or a package of the library itself
                # ... as long as class and module keep different names (a one-word lower-case type `item` would
                # live in a module `item` and the two would shadow each other in the package namespace)
                if spec.pascal_to_snake(low) != low:
                    name = low
            k = 2
            cand = name
            while True:
                sn = spec.pascal_to_snake(cand)
                bad = (cand in self.type_names or cand in BAD_TYPE_NAMES or keyword.iskeyword(sn)
                       or sn in self.snake_by_dir[dir_]
                       or (any(sn in s for s in self.snake_by_dir.values()) and not self._case_variant_ok(cand, sn))
                       or sn in SUBDIRS.get(dir_, ())
                       or sn in ("packet", "serialization_error", "protocol_enum_meta")
                       or cand.endswith(("ClientPacket", "ServerPacket")))
                if not bad:
                    break
                cand = f"{name}{k}"
                k += 1
            self.type_names.add(cand)
            self.snake_by_dir[dir_].add(spec.pascal_to_snake(cand))
            return cand
        raise RuntimeError("name generation failed")

    def _case_variant_ok(self, cand, sn):
        """Same module stem in another directory is fine when the class names differ (NpcInfo in net/,
        NPCInfo in pub/): the generated modules live in different packages."""
        return all(spec.pascal_to_snake(t) != sn or t != cand for t in self.type_names)

    def refresh(self):
        self.an = spec.Analysis(self.tree)

    PACKET_DIRS = ("net/client", "net/server")
    PARENTS = {"pub/server": ["pub"], "net/client": ["net"], "net/server": ["net"]}

    def _reaches(self, a, b):
        """Is there a path a ->* b in the directory reference graph?"""
        seen, todo = set(), [a]
        while todo:
            x = todo.pop()
            if x == b:
                return True
            if x in seen:
                continue
            seen.add(x)
            todo.extend(y for (u, y) in self.dir_edges if u == x)
        return False

    def may_reference(self, dir_, d2):
        """A declaration in dir_ may use a type declared in d2 iff the directory reference graph stays
        acyclic (mutual references between two directories hit open finding KF1) and nothing outside the
        packet directories reaches into them (open finding KF2). With the feature switched off, the
        stricter fixed layering of DESIGN 4.1 applies."""
        if d2 == dir_:
            return True
        if not self.f.get("free_directory_refs", True):
            return LAYER[d2] <= LAYER[dir_]
        if d2 in self.PACKET_DIRS and not (dir_ == "net/server" and d2 == "net/client"):
            return False
        # importing a module of pub/server (net/client, ...) initialises the parent package pub (net) first,
        # whose __init__ imports all of ITS modules: a reference into a nested directory is also one into
        # its parent
        targets = [t for t in [d2] + self.PARENTS.get(d2, []) if t != dir_]
        return not any(self._reaches(t, dir_) for t in targets)

    def visible_types(self, dir_, kind):
        return [n for (n, k, d) in self.decl_order if k == kind and self.may_reference(dir_, d)]

    def pick_type(self, dir_, names):
        """Pick one of the visible type names and record the directory reference it creates."""
        name = self.pick(names)
        d2 = next(d for (n, k, d) in self.decl_order if n == name)
        if d2 != dir_:
            self.dir_edges.add((dir_, d2))
            for par in self.PARENTS.get(d2, []):
                if par != dir_:
                    self.dir_edges.add((dir_, par))
        return name

    # -- enums -----------------------------------------------------------------
    def gen_enum(self, dir_, name=None, nmin=1, nmax=6):
        mandatory = name is not None          # PacketFamily / PacketAction need members
        name = name or self.new_type_name(dir_)
        typ = self.pick(INT_TYPES)
        lim = INT_LIMIT[typ]
        n = self.draw(st.integers(nmin, nmax))
        if not mandatory and self.f["empty_enum"] and self.boolean(0.06):
            n = 0
        used_names, used_ords, values = set(), set(), []
        for k_ in range(n):
            if k_ == 0 and not mandatory and self.boolean(0.12):
                vn = "None"         # the one value name that cannot be its own Python member name
                used_names.add(vn)
            else:
                vn = _uniq_name(self.draw, MEMBER_WORDS, used_names, "member")
            o = self.draw(st.one_of(
                st.sampled_from([0, 1, 2, 3, 4, 5, 252, 253, 254, 255]),
                st.integers(0, min(lim - 1, 64008)), st.integers(0, 12)))
            o = min(o, lim - 1)
            while o in used_ords:
                o = (o + 1) % lim
            used_ords.add(o)
            v = {"name": vn, "ord": o}
            c = self.comment()
            if c:
                v["comment"] = c
                if self.boolean(0.5):
                    v["text_after_comment"] = True
            values.append(v)
        d = {"kind": "enum", "name": name, "type": typ, "values": values}
        c = self.comment()
        if not values and self.boolean(0.4):
            c = "" if self.boolean(0.5) else (c or "reserved")      # a placeholder enum, documented or with an empty <comment/>
        if c is not None:
            d["comment"] = c
        return d

    # -- bodies ----------------------------------------------------------------
    def gen_body(self, dir_, lex=False, reached_optional=False, depth=0, max_n=6, is_case=False, outer_names=None, outer_len=None):
        ctx = {"dir": dir_, "lex": lex, "names": _Names(outer_names, outer_len), "opt": reached_optional, "depth": depth,
               "switchable": [], "switched": set(), "fields": {}, "dummy": False, "is_case": is_case,
               "parent_opt": reached_optional}
        n = self.draw(st.integers(0, max_n))
        body = []
        self.gen_instrs(ctx, body, n)
        if not body and not self.f["empty_body"] and not is_case:
            self.drop("empty_body")
            body.append({"tag": "field", "name": _uniq_name(self.draw, self.field_pool, ctx["names"], "f"),
                         "type": "char"})
        return body, ctx

    def scalar_type(self, dir_, allow_struct=True, allow_unbounded=True, lex=False):
        """-> type string for a non-array field."""
        enums = self.visible_types(dir_, "enum")
        structs = self.visible_types(dir_, "struct") if allow_struct else []
        if lex and structs and self.boolean(0.2):
            # inside a chunked section: a struct that has a chunked section of its OWN and more members after it
            # (what follows its </chunked> is read in the mode the section leaves behind)
            own = [x for x in structs if _chunk_then_more(self.an.types[x][0]["body"])]
            if own:
                return self.pick_type(dir_, own)
        choices = [("int", 40), ("bool", 8), ("string", 14), ("encoded_string", 7), ("blob", 3)]
        if enums:
            choices.append(("enum", 15))
        if structs:
            choices.append(("struct", 13))
        k = self.weighted(choices)
        if k == "int":
            return self.pick(INT_TYPES)
        if k == "bool":
            return "bool" if self.boolean(0.6) else "bool:" + self.pick(INT_TYPES)
        if k == "enum":
            e = self.pick_type(dir_, enums)
            if self.boolean(0.3):
                ov = self.pick(INT_TYPES)
                return f"{e}:{ov}"
            return e
        if k == "struct":
            return self.pick_type(dir_, structs)
        return k

    def hard_text(self, n=None):
        alpha = HARD_TEXT_SAFE
        if self.f["hardcoded_special_chars"] and self.boolean(0.2):
            alpha = HARD_TEXT_SAFE + '"\\'
        if self.boolean(0.2):
            alpha = alpha + "\u00ff\u00ff\u00e9\u20ac\u0178\u0416\U0001F600e\u0301\u212b\ufb01"
        if n is None:
            n = self.draw(st.integers(1, 6))
        t = self.draw(st.text(alphabet=alpha, min_size=n, max_size=n))
        if self.boolean(0.2):
            # the one character whose windows-1252 image is the break byte: written as is outside chunked
            # sections, as 'y' inside
            k_ = self.draw(st.integers(0, n - 1))
            t = t[:k_] + "\u00ff" + t[k_ + 1:]
        if n >= 4 and self.boolean(0.15):
            # inner white space is part of the constant: runs of blanks, a tab
            t = t[0] + self.pick(["  ", " \t", "\t ", "   "[:2]]) + t[3:]
        # text is stripped by the XML reader; keep the length stable
        if t != t.strip() or not t:
            t = "q" * max(1, n)
        return t

    def set_optional(self, ctx, ins, may_start=True, p=0.12):
        """Decide optionality of a named field/array/length; returns True if optional."""
        if ctx["opt"]:
            ins["optional"] = True
            return True
        if may_start and self.boolean(p):
            ins["optional"] = True
            ctx["opt"] = True
            return True
        if self.f["explicit_false"] and self.boolean(0.06):
            ins["optional"] = False
        return False

    def gen_instrs(self, ctx, body, n):
        for idx in range(n):
            if ctx["dummy"]:
                return
            last = idx == n - 1
            kinds = [("field", 12), ("array", 5), ("lenmember", 4), ("hfield", 2)]
            if ctx["switchable"] and ctx["depth"] < self.size["max_depth"]:
                kinds.append(("switch", 6 * self.size.get("nest", 1)))
            if ctx["depth"] < self.size["max_depth"]:
                kinds.append(("chunked", (5 if not ctx["lex"] else 1) * self.size.get("nest", 1)))
            if ctx["lex"]:
                kinds.append(("break", 5))
            if last and not ctx["opt"]:
                kinds.append(("dummy", 3))
            kind = self.weighted(kinds)
            getattr(self, "i_" + kind)(ctx, body)

    def i_field(self, ctx, body):
        name = _uniq_name(self.draw, self.field_pool, ctx["names"], "f")
        typ = self.scalar_type(ctx["dir"], lex=ctx["lex"])
        ins = {"tag": "field", "name": name, "type": typ}
        r = self.an.resolve(typ)
        if r["kind"] == "string":
            same = ctx["names"].outer_len.get(name)
            if same is not None and self.boolean(0.7):
                ins["length"] = same
            elif self.boolean(0.45):
                ins["length"] = str(self.draw(st.integers(0, 6)))
            if ins.get("length") is not None:
                ctx.setdefault("literal_len", {})[name] = ins["length"]
                if self.boolean(0.45):
                    ins["padded"] = True
                elif self.f["explicit_false"] and self.boolean(0.1):
                    ins["padded"] = False
        hard = False
        if r["kind"] in ("int", "bool", "string") and self.boolean(0.06):
            if not self.f["hardcoded_named"]:
                self.drop("hardcoded_named")
            else:
                hard = True
                if r["kind"] == "int":
                    ins["value"] = str(self.draw(st.integers(0, min(INT_LIMIT[r["wire"]] - 1, 70000))))
                elif r["kind"] == "bool":
                    ins["value"] = self.pick(["true", "false"])
                else:
                    ln = ins.get("length")
                    ins["value"] = self.hard_text(int(ln) if (ln and int(ln) > 0) else None)
                    if ln is not None:
                        ins["length"] = str(len(ins["value"]))
        self.set_optional(ctx, ins)
        c = self.comment()
        if c:
            ins["comment"] = c
            if hard and self.boolean(0.5):
                ins["value_after_comment"] = True
        body.append(ins)
        ctx["fields"][name] = ins
        if r["kind"] in ("int", "enum") and not hard:
            ctx["switchable"].append(name)
        elif r["kind"] in ("int",) and hard and self.boolean(0.5):
            ctx["switchable"].append(name)

    def i_hfield(self, ctx, body):
        if ctx["opt"]:
            return self.i_field(ctx, body)   # unnamed fields may not be optional
        k = self.weighted([("int", 5), ("bool", 2), ("string", 3)])
        ins = {"tag": "field", "name": None}
        if k == "int":
            t = self.pick(INT_TYPES)
            ins["type"] = t
            ins["value"] = str(self.draw(st.integers(0, min(INT_LIMIT[t] - 1, 70000))))
        elif k == "bool":
            ins["type"] = "bool" if self.boolean(0.7) else "bool:" + self.pick(INT_TYPES)
            ins["value"] = self.pick(["true", "false"])
        else:
            ins["type"] = self.pick(["string", "encoded_string"])
            ins["value"] = self.hard_text()
            if self.boolean(0.5):
                ins["length"] = str(len(ins["value"]))
                if self.boolean(0.3):
                    ins["padded"] = True
        body.append(ins)

    def element_type(self, ctx, delimited, has_length):
        """Type string for array elements (None if nothing suitable)."""
        dir_ = ctx["dir"]
        enums = self.visible_types(dir_, "enum")
        structs = []
        for s in self.visible_types(dir_, "struct"):
            fs = self.an.struct_fixed_size(s)
            if fs == 0:
                continue
            if not delimited and not self.an.struct_bounded(s):
                continue
            if not self.an.consumes_progress(s):
                continue
            if _has_dummy(self.an.types[s][0]["body"]) and not has_length:
                continue
            structs.append(s)
        choices = [("int", 30), ("bool", 4)]
        if enums:
            choices.append(("enum", 10))
        if structs:
            choices.append(("struct", 30))
        fixed0 = [x for x in structs if self.an.struct_fixed_size(x)]
        if fixed0 and not has_length and not delimited and self.boolean(0.3):
            # the element count of such an array is derived from the struct's computed size
            return self.pick_type(dir_, fixed0)
        breaking = [x for x in structs if any(i["tag"] == "break" for i in spec.Analysis.flatten(self.an.types[x][0]["body"]))]
        if breaking and self.boolean(0.3 if ctx["lex"] else 0.1):
            # elements that carry their own <chunked>/<break>: one element spans several chunks of the parent
            return self.pick_type(dir_, breaking)
        almost = [x for x in structs if x in self.almost_fixed]
        if almost and not has_length and not delimited and self.boolean(0.35):
            return self.pick_type(dir_, almost)
        fixed = [x for x in structs if self.an.struct_fixed_size(x)]
        if fixed and not has_length and not delimited and self.boolean(0.5):
            # the element count of such an array is derived from the struct's computed size
            return self.pick_type(dir_, fixed)
        if delimited:
            choices += [("string", 14), ("encoded_string", 5), ("blob", 2)]
        k = self.weighted(choices)
        if k == "int":
            return self.pick(INT_TYPES)
        if k == "bool":
            return "bool" if self.boolean(0.7) else "bool:" + self.pick(INT_TYPES)
        if k == "enum":
            e = self.pick_type(dir_, enums)
            return f"{e}:{self.pick(INT_TYPES)}" if self.boolean(0.25) else e
        if k == "struct":
            return self.pick_type(dir_, structs)
        return k

    def i_array(self, ctx, body, length=None):
        reuse = sorted(n for n in ctx["names"].outer_len if n not in ctx["names"])
        if length is None and reuse and self.boolean(0.4):
            # a case member that repeats the name (and literal length) of a member of the enclosing body
            name = self.pick(reuse)
            ctx["names"].add(name)
        else:
            name = _uniq_name(self.draw, self.field_pool, ctx["names"], "f")
        if length is None and not ctx["opt"] and self.boolean(0.07):
            # the element count travelling as an ordinary member in front of the array (items_count, items)
            cn = name + "_" + self.pick(["count", "size", "len", "n", "num"])
            if cn not in ctx["names"] and cn not in RESERVED:
                ctx["names"].add(cn)
                cf = {"tag": "field", "name": cn, "type": self.pick(["char", "short"])}
                body.append(cf)
                ctx["fields"][cn] = cf
        ins = {"tag": "array", "name": name}
        delimited = ctx["lex"] and self.boolean(0.55)
        same = ctx["names"].outer_len.get(name)
        if length is None and same is not None and self.boolean(0.7):
            length = same
        if length is None and self.boolean(0.4):
            length = str(self.draw(st.integers(0, 4)))
        if length is not None and length.isdigit():
            ctx.setdefault("literal_len", {})[name] = length
        ins["type"] = self.element_type(ctx, delimited, length is not None)
        if length is not None:
            ins["length"] = length
        if delimited:
            ins["delimited"] = True
            if self.boolean(0.4):
                ins["trailing"] = False
            elif self.f["explicit_false"] and self.boolean(0.15):
                ins["trailing"] = True
        elif self.f["explicit_false"] and self.boolean(0.06):
            ins["delimited"] = False
        if not delimited and self.f["explicit_false"] and self.boolean(0.08):
            ins["trailing"] = self.boolean(0.5)     # meaningless without delimited="true", but legal
        if ctx["opt"] or self.boolean(0.1):
            if self.f["optional_array"]:
                self.set_optional(ctx, ins, p=1.0)
            elif ctx["opt"]:
                # cannot place a required member after an optional one: emit an optional field instead
                self.drop("optional_array")
                ctx["names"].discard(name)
                return self.i_field(ctx, body)
            else:
                self.drop("optional_array")
        elif self.f["explicit_false"] and self.boolean(0.06):
            ins["optional"] = False
        c = self.comment()
        if c:
            ins["comment"] = c
        body.append(ins)

    def i_lenmember(self, ctx, body):
        lname = _uniq_name(self.draw, self.field_pool, ctx["names"], "f")
        lt = self.weighted([("char", 6), ("short", 3), ("byte", 2), ("three", 1), ("int", 1)])
        lins = {"tag": "length", "name": lname, "type": lt}
        off = self.draw(st.sampled_from([0, 0, 0, 1, 1, -1, 2, -2, 3]))
        if off != 0 or self.boolean(0.1):
            lins["offset"] = off
        was_opt = ctx["opt"]
        if was_opt:
            if not (self.f["optional_length_field"] and self.f["optional_lenref"]):
                self.drop("optional_lenref")
                ctx["names"].discard(lname)
                return self.i_field(ctx, body)
            lins["optional"] = True
        body.append(lins)
        if self.boolean(0.15) and not ctx["opt"] and ctx["depth"] < self.size["max_depth"] and \
                [f for f in ctx["switchable"] if f not in ctx["switched"]]:
            self.i_switch(ctx, body)        # the reference comes only after a whole switch
            if ctx["dummy"]:
                # a case ended in a dummy: nothing may follow - reference the length field inside... no: undo
                body.pop()
                ctx["dummy"] = False
        if self.boolean(0.25) and not ctx["opt"]:
            # something in between
            mid = {"tag": "field", "name": _uniq_name(self.draw, self.field_pool, ctx["names"], "f"),
                   "type": self.pick(INT_TYPES)}
            body.append(mid)
            ctx["fields"][mid["name"]] = mid
            ctx["switchable"].append(mid["name"])
        if self.boolean(0.5):
            name = _uniq_name(self.draw, self.field_pool, ctx["names"], "f")
            ins = {"tag": "field", "name": name, "type": self.pick(["string", "string", "encoded_string"]),
                   "length": lname}
            if self.boolean(0.3):
                ins["padded"] = True
            if ctx["opt"]:
                ins["optional"] = True
            elif self.boolean(0.08):
                if self.f["optional_lenref"]:
                    ins["optional"] = True
                    ctx["opt"] = True
                else:
                    self.drop("optional_lenref")
            if self.f["hardcoded_named"] and not ins.get("optional") and self.boolean(0.15):
                ins["value"] = self.hard_text()        # its length travels in the length field
            body.append(ins)
        else:
            n_before = len(body)
            opt_before = ctx["opt"]
            if not ctx["opt"] and not self.f["optional_lenref"]:
                # i_array may decide to become optional; forbid by forcing the feature off locally
                saved = self.f["optional_array"]
                self.f = dict(self.f, optional_array=False)
                self.i_array(ctx, body, length=lname)
                self.f = dict(self.f, optional_array=saved)
            else:
                self.i_array(ctx, body, length=lname)
            # i_array may have fallen back to i_field: then the length field is unreferenced -> fix up
            new = body[n_before:]
            if not any(x.get("length") == lname for x in new):
                name = _uniq_name(self.draw, self.field_pool, ctx["names"], "f")
                ins = {"tag": "field", "name": name, "type": "string", "length": lname}
                if ctx["opt"]:
                    ins["optional"] = True
                body.append(ins)
        ctx["fields"][lname] = lins
        if self.boolean(0.15):
            ctx["switchable"].append(lname)

    def i_dummy(self, ctx, body):
        k = self.weighted([("int", 6), ("bool", 1), ("string", 2)])
        ins = {"tag": "dummy"}
        if k == "int":
            t = self.pick(INT_TYPES)
            ins["type"] = t
            ins["value"] = str(self.draw(st.integers(0, min(INT_LIMIT[t] - 1, 300))))
        elif k == "bool":
            ins["type"] = "bool"
            ins["value"] = self.pick(["true", "false"])
        else:
            ins["type"] = "string"
            ins["value"] = self.hard_text()
        body.append(ins)
        ctx["dummy"] = True

    def i_break(self, ctx, body):
        body.append({"tag": "break"})
        ctx["opt"] = False

    def i_chunked(self, ctx, body):
        if self.boolean(0.07):
            # a section with nothing in it (left over after an edit): switches the mode on and off again
            body.append({"tag": "chunked", "body": []})
            return
        inner = []
        sub = dict(ctx, lex=True, depth=ctx["depth"] + 1)
        # shared (mutable) scope objects stay shared: names, switchable, switched
        n = self.draw(st.integers(1, 4))
        self.gen_instrs(sub, inner, n)
        ctx["opt"] = sub["opt"]
        ctx["dummy"] = sub["dummy"]
        if not inner:
            inner.append({"tag": "break"})
        body.append({"tag": "chunked", "body": inner})

    def i_switch(self, ctx, body):
        cands = [f for f in ctx["switchable"] if f not in ctx["switched"]]
        if not cands:
            return self.i_field(ctx, body)
        hard = [f for f in cands if ctx["fields"][f].get("value") is not None]
        fname = self.pick(hard) if hard and self.boolean(0.6) else self.pick(cands)
        ctx["switched"].add(fname)
        fins = ctx["fields"][fname]
        r = self.an.resolve(fins["type"])
        ncases = self.draw(st.integers(1, 4))
        used = set()
        cases = []
        for ci in range(ncases):
            c = {}
            if ci > 0 and ci == ncases - 1 and self.boolean(0.45):
                c["default"] = True
            else:
                if r["kind"] == "enum":
                    members = [v for v in r["decl"]["values"] if v["name"] not in used]
                    declared = {v["ord"] for v in r["decl"]["values"]}
                    odd = [v for v in members if v["name"] == "None"]
                    if odd and self.boolean(0.5):
                        val = "None"        # the one value name that is not its own Python member name
                    elif members and self.boolean(0.8):
                        val = self.pick(members)["name"]
                    else:
                        o = self.draw(st.integers(0, 40))
                        while o in declared or str(o) in used:
                            o += 1
                        val = str(o)
                else:
                    if ci == 0 and fins.get("value") is not None and self.boolean(0.7):
                        val = str(int(fins["value"]))     # the hardcoded constant selects this case
                    else:
                        val = str(self.draw(st.one_of(st.integers(0, 6), st.integers(0, 300))))
                    while val in used:
                        val = str(int(val) + 1)
                used.add(val)
                c["value"] = val
                if self.f["explicit_false"] and self.boolean(0.08):
                    c["default"] = False
            prev = [x for x in cases if x.get("body")]
            if prev and self.boolean(0.15):
                import copy as _copy
                c["body"] = _copy.deepcopy(self.pick(prev)["body"])     # two cases with the same layout
            elif self.boolean(0.3):
                c["body"] = []
            else:
                popt = ctx["opt"]
                if popt and not self.f["case_optional_after_parent_optional"]:
                    self.drop("case_optional_after_parent_optional")
                    c["body"] = []
                else:
                    c["body"], sub = self.gen_body(ctx["dir"], lex=ctx["lex"], reached_optional=popt,
                                                   depth=ctx["depth"] + 1, max_n=self.size["case_n"], is_case=True,
                                                   outer_names=set(ctx["names"]),
                                                   outer_len=ctx.setdefault("literal_len", {}))
                    c["_opt"] = sub["opt"]
                    c["_dummy"] = sub["dummy"]
            cm = self.comment()
            if cm:
                c["comment"] = cm
            cases.append(c)
        any_opt = any(c.pop("_opt", False) for c in cases)
        any_dummy = any(c.pop("_dummy", False) for c in cases)
        ctx["opt"] = ctx["opt"] or any_opt
        ctx["dummy"] = ctx["dummy"] or any_dummy
        body.append({"tag": "switch", "field": fname, "cases": cases})

    # -- declarations ----------------------------------------------------------
    def add_decl(self, dir_, decl):
        self.tree["files"][dir_].append(decl)
        if decl["kind"] != "packet":
            self.decl_order.append((decl["name"], decl["kind"], dir_))
        self.refresh()


def _user_types(g, body):
    """Directories of the declared types a body refers to."""
    where = {n: d for (n, k, d) in g.decl_order}
    out = set()
    for ins in spec.Analysis.flatten(body):
        t = (ins.get("type") or "").partition(":")[0]
        if t in where:
            out.add(where[t])
    return out


def _chunk_then_more(body):
    return any(ins["tag"] == "chunked" and i + 1 < len(body) for i, ins in enumerate(body))


def _has_dummy(body):
    return any(i["tag"] == "dummy" for i in spec.Analysis.flatten(body))


# generated sizes per tier ("many small cases beat few large ones": the thorough tier mixes both)
SIZES = {
    "quick": {"max_decls": 9, "max_packets": 3, "max_depth": 3, "body_n": 6, "case_n": 4},
    "big": {"max_decls": 13, "max_packets": 4, "max_depth": 4, "body_n": 8, "case_n": 5},
    # deeper nesting (switch in case in chunked in case ...) and longer declaration chains; bodies
    # stay short so that a tree still fits Hypothesis' entropy budget
    "deep": {"max_decls": 18, "max_packets": 5, "max_depth": 6, "body_n": 5, "case_n": 3, "nest": 3},
}
_TIER = ["quick"]


def set_tier(tier):
    """Called by the checks at the start of a task; the thorough tier draws half of its trees
    from the larger size profile and one in eight from the deep one."""
    _TIER[0] = "thorough" if tier == "thorough" else "quick"


def canonicalise(lst, tail_ok=True):
    """Rewrite a body so that unbounded items only occur at the end of a segment / of the data
    (canonical profile, DESIGN 4.1). Only makes instructions more bounded, which never
    invalidates a tree."""
    for i, ins in enumerate(lst):
        t = ins["tag"]
        is_last = (i == len(lst) - 1 and tail_ok) or (i + 1 < len(lst) and lst[i + 1]["tag"] == "break")
        if t == "field":
            base = ins["type"].partition(":")[0]
            if base in ("string", "encoded_string") and ins.get("length") is None and not is_last:
                ins["length"] = str(len(ins["value"])) if ins.get("value") is not None else "3"
            elif base == "blob" and not is_last:
                ins["type"] = "char"
        elif t == "array":
            if ins.get("length") is None and not is_last:
                ins["length"] = "2"
        elif t == "chunked":
            canonicalise(ins["body"], is_last)
        elif t == "switch":
            for c in ins["cases"]:
                canonicalise(c["body"], is_last)


@st.composite
def trees(draw, features=None, min_decls=2, max_decls=None, max_packets=None, canonical=False):
    f = dict(DEFAULT_FEATURES)
    if features:
        f.update(features)
    g = _Gen(draw, f)
    g.canonical = canonical
    size = SIZES["quick"]
    if _TIER[0] == "thorough":
        # half of the thorough trees use the larger profile, one in eight the deep one
        size = SIZES[draw(st.sampled_from(("quick", "quick", "quick", "big", "big", "big", "big", "deep")))]
    g.size = size
    if max_decls is None:
        max_decls = size["max_decls"]
    if max_packets is None:
        max_packets = size["max_packets"]
    # mandatory enums
    fam = g.gen_enum("net", name="PacketFamily", nmin=1, nmax=4)
    act = g.gen_enum("net", name="PacketAction", nmin=1, nmax=4)
    g.type_names.update(["PacketFamily", "PacketAction"])
    n = draw(st.integers(min_decls, max_decls))
    pending_net = [fam, act]
    # declarations in global order; PacketFamily/Action are inserted when the first net-layer
    # declaration appears (or at the end)
    placed_net = False
    for _ in range(n):
        dir_ = g.weighted([("", 5), ("pub", 2), ("pub/server", 1), ("map", 2), ("net", 4),
                           ("net/client", 2), ("net/server", 2)])
        if LAYER[dir_] >= LAYER["net"] and not placed_net:
            for e in pending_net:
                g.add_decl("net", e)
            placed_net = True
        if g.boolean(0.3):
            g.add_decl(dir_, g.gen_enum(dir_))
        else:
            name = g.new_type_name(dir_)
            g.field_pool = FIELD_NAMES + STRUCT_ONLY_NAMES
            body, _ = g.gen_struct_body(dir_)
            g.field_pool = FIELD_NAMES
            d = {"kind": "struct", "name": name, "body": body}
            if g.almost_fixed_pending:
                g.almost_fixed.add(name)
                g.almost_fixed_pending = False
            c = g.comment()
            if c:
                d["comment"] = c
            g.add_decl(dir_, d)
    if not placed_net:
        for e in pending_net:
            g.add_decl("net", e)
    # packets
    np_ = draw(st.integers(0, max_packets))
    used = set()
    for _ in range(np_):
        dir_ = g.pick(["net/client", "net/server"])
        fm = g.pick(fam["values"])["name"]
        ac = g.pick(act["values"])["name"]
        if (dir_, fm, ac) in used:
            continue
        used.add((dir_, fm, ac))
        body, _ = g.gen_struct_body(dir_)
        g.almost_fixed_pending = False
        d = {"kind": "packet", "family": fm, "action": ac, "body": body}
        c = g.comment()
        if c:
            d["comment"] = c
        g.add_decl(dir_, d)
        other = "net/server" if dir_ == "net/client" else "net/client"
        if (other, fm, ac) not in used and g.boolean(0.3):
            # the same exchange declared in both directions, character for character (pings, pongs, ...)
            refs = _user_types(g, body)
            if all(g.may_reference(other, rd) for rd in refs):
                for rd in refs:
                    if rd != other:
                        g.dir_edges.add((other, rd))
                        for par in g.PARENTS.get(rd, []):
                            if par != other:
                                g.dir_edges.add((other, par))
                import copy as _copy
                used.add((other, fm, ac))
                g.add_decl(other, _copy.deepcopy(d))
    g.tree["_excluded"] = g.excluded
    return g.tree


def _gen_simple_body(self, dir_):
    """A small struct of fixed-size members only (integers, bools, enums, fixed-length strings,
    earlier fixed-size structs), part of them optionally inside a <chunked> section with breaks:
    the typical array element. Shapes the general grammar produces only rarely."""
    names = set()
    enums = self.visible_types(dir_, "enum")
    fixed_structs = [x for x in self.visible_types(dir_, "struct") if (self.an.struct_fixed_size(x) or 0) > 0]

    def member():
        k = self.weighted([("int", 6), ("bool", 3), ("enum", 3 if enums else 0), ("str", 2),
                           ("struct", 2 if fixed_structs else 0), ("array", 4)])
        if k == "array":
            # a fixed number of fixed-size elements (zero of them included) keeps the struct fixed-size
            return {"tag": "array", "name": _uniq_name(self.draw, self.field_pool, names, "f"),
                    "type": self.pick(INT_TYPES) if not fixed_structs or self.boolean(0.7) else self.pick_type(dir_, fixed_structs),
                    "length": str(self.draw(st.sampled_from([0, 0, 0, 1, 2, 3])))}
        ins = {"tag": "field", "name": _uniq_name(self.draw, self.field_pool, names, "f")}
        if k == "int":
            ins["type"] = self.pick(INT_TYPES)
        elif k == "bool":
            ins["type"] = "bool" if self.boolean(0.3) else "bool:" + self.pick(INT_TYPES)
        elif k == "enum":
            ins["type"] = self.pick_type(dir_, enums)
            if self.boolean(0.5):
                ins["type"] += ":" + self.pick(INT_TYPES)
        elif k == "struct":
            ins["type"] = self.pick_type(dir_, fixed_structs)
        else:
            ins["type"] = self.pick(["string", "encoded_string"])
            ins["length"] = str(self.draw(st.integers(1, 4)))
            if self.boolean(0.4):
                ins["padded"] = True
        return ins

    body = [member() for _ in range(self.draw(st.integers(1, 3)))]
    if self.boolean(0.2):
        # "almost fixed": fixed-size members and one optional tail (never a fixed-size struct, but a legal
        # element of arrays that run to the end of the data)
        if self.f["optional_array"] and self.boolean(0.5):
            body.append({"tag": "array", "name": _uniq_name(self.draw, self.field_pool, names, "f"),
                         "type": self.pick(INT_TYPES), "length": str(self.draw(st.integers(1, 3))), "optional": True})
        else:
            tail = member()
            tail["optional"] = True
            body.append(tail)
        self.almost_fixed_pending = True
        return body, {}
    if self.boolean(0.45):
        inner = [member() for _ in range(self.draw(st.integers(1, 3)))]
        if self.boolean(0.5):
            inner.insert(self.draw(st.integers(1, len(inner))), {"tag": "break"})
        chunk = {"tag": "chunked", "body": inner}
        pos = self.pick(["front", "back", "only"])
        if pos == "front":
            body = [chunk] + body
        elif pos == "back":
            body = body + [chunk]
        else:
            body = [chunk]
    return body, {}


_Gen.gen_simple_body = _gen_simple_body


def _gen_rare_body(self, dir_):
    """Small bodies whose ONLY optional / only typed construct is an unusual one: what a generator that
    emits imports or guards 'next to their use' gets wrong when nothing else in the object needs them."""
    names = set()
    nm = lambda: _uniq_name(self.draw, self.field_pool, names, "f")   # noqa: E731
    shape = self.pick(["opt_length_break_string", "opt_length_opt_string", "only_opt_length_array",
                       "only_hardcoded", "only_opt_string", "only_opt_enum", "hardcoded_then_dummy"])
    ln = nm()
    lt = self.pick(["char", "short", "byte"])
    styp = self.pick(["string", "string", "encoded_string"])
    if shape == "opt_length_break_string" and self.f["optional_length_field"] and self.f["optional_lenref"]:
        s_ = {"tag": "field", "name": nm(), "type": styp, "length": ln}
        if self.boolean(0.3):
            s_["padded"] = True
        return [{"tag": "chunked", "body": [{"tag": "length", "name": ln, "type": lt, "optional": True},
                                            {"tag": "break"}, s_]}], {}
    if shape == "opt_length_opt_string" and self.f["optional_length_field"] and self.f["optional_lenref"]:
        return [{"tag": "length", "name": ln, "type": lt, "optional": True},
                {"tag": "field", "name": nm(), "type": styp, "length": ln, "optional": True}], {}
    if shape == "only_opt_length_array" and self.f["optional_length_field"] and self.f["optional_lenref"] \
            and self.f["optional_array"]:
        return [{"tag": "length", "name": ln, "type": lt, "optional": True},
                {"tag": "array", "name": nm(), "type": self.pick(INT_TYPES), "length": ln, "optional": True}], {}
    if shape == "only_hardcoded":
        return [{"tag": "field", "name": None, "type": self.pick(INT_TYPES), "value": str(self.draw(st.integers(0, 200)))}], {}
    if shape == "hardcoded_then_dummy":
        # the dummy is guarded by "nothing written / read so far" although the object has no named member at all
        body = [{"tag": "field", "name": None, "type": self.pick(INT_TYPES), "value": str(self.draw(st.integers(0, 200)))}]
        if self.boolean(0.3):
            body.append({"tag": "field", "name": None, "type": "string", "value": "x", "length": "1"})
        body.append({"tag": "dummy", "type": self.pick(["char", "short"]), "value": str(self.draw(st.integers(0, 200)))})
        return body, {}
    if shape == "only_opt_enum":
        enums = self.visible_types(dir_, "enum")
        if enums:
            return [{"tag": "field", "name": ln, "type": self.pick_type(dir_, enums), "optional": True}], {}
    return [{"tag": "field", "name": ln, "type": styp, "optional": True}], {}


_Gen.gen_rare_body = _gen_rare_body


def _gen_struct_body(self, dir_):
    if self.draw(st.integers(0, 99)) < 5:
        return self.gen_rare_body(dir_)
    if self.draw(st.integers(0, 99)) < 22:
        return self.gen_simple_body(dir_)
    body, ctx = self.gen_body(dir_, lex=False, reached_optional=False, depth=0, max_n=self.size["body_n"])
    if getattr(self, "canonical", False):
        canonicalise(body, True)
    return body, ctx


_Gen.gen_struct_body = _gen_struct_body
