"""C07 - EO number codec is a wire-safe bijection on its whole range (DESIGN 5/C07)."""
from hypothesis import strategies as st

from vlib import hyp, loader, refcodec
from vlib.runner import TaskResult, Violation

PROPERTY = "C07"
LEVEL = "exploration"
B = 253
RULE = {
    "quick": "exhaustive: every n in [0,253^3) enumerated digit by digit (encode == positional model, "
             "round trip, k-byte prefix, no 00/FF, FE filler) and every byte string of length 0..3 "
             "(decode == positional formula); 4-byte range stratified: every top digit x low digits "
             "in {0,1,2,126,251,252}^3, plus Hypothesis-drawn ints, 4..8 byte strings and short call sequences "
             "(the last encoding must not depend on earlier calls). "
             "Non-trivial: n >= 253, or a byte string containing 00/FE/FF; distinct by value.",
    "thorough": "as quick, plus every one of the 253^4 = 4,097,152,081 integers enumerated digit by "
                "digit over 253 shards. Non-trivial: n >= 253, or a byte string containing 00/FE/FF; "
                "distinct by value.",
}
EXHAUSTIVE = {
    "quick": "all integers 0..253^3-1 (encode/decode/prefix) and all byte strings of length 0..3 "
             "(decode); the 4-byte range is sampled, not exhaustive",
    "thorough": "all integers 0..253^4-1 and all byte strings of length 0..3",
}
ASSUMPTIONS = [
    "the positional base-253 model in the harness is the documented EO number format "
    "(pinned by the repository's 24 literal vectors in the self-test)",
]
STRATA = (0, 1, 2, 126, 251, 252)


def selftest():
    refcodec.selftest()


def _check_n(enc_f, dec_f, n, exp, k):
    got = enc_f(n)
    if got != exp or type(got) is not bytes:
        raise Violation("encode_matches_model", {"kind": "n", "n": n}, exp.hex(),
                        bytes(got).hex() if isinstance(got, (bytes, bytearray)) else repr(got))
    back = dec_f(got)
    if back != n:
        raise Violation("round_trip", {"kind": "n", "n": n}, n, back)
    if k < 4:
        p = dec_f(got[:k])
        if p != n:
            raise Violation("prefix_decodes", {"kind": "n", "n": n}, n, p, f"k={k}")


def _range_for_top(enc_f, dec_f, digits_hi, res):
    """Enumerate all n whose high digits are `digits_hi` = (d3,d2) [4-byte] ; low two digits run."""
    d3, d2 = digits_hi
    base = d3 * B ** 3 + d2 * B ** 2
    hi_k = 4 if d3 else (3 if d2 else 0)
    for d1 in range(B):
        k1 = hi_k or (2 if d1 else 1)
        tail = bytes([(d1 + 1) if k1 >= 2 else 0xFE, (d2 + 1) if k1 >= 3 else 0xFE,
                      (d3 + 1) if k1 >= 4 else 0xFE])
        nb = base + d1 * B
        for d0 in range(B):
            _check_n(enc_f, dec_f, nb + d0, bytes([d0 + 1]) + tail, k1)
    res.evaluations += B * B
    # non-trivial: n >= 253
    res.nt_count += B * B - (B if base == 0 else 0)


def run_task(task):
    c = loader.core()
    enc_f, dec_f = c.data.encode_number, c.data.decode_number
    res = TaskResult()
    kind = task["kind"]
    try:
        if kind == "opt":           # same arithmetic in fresh `python -O` / `-OO` interpreters
            from vlib import optrun
            from vlib.afterfail import after_failures
            import decimal
            # valid calls made after calls that raised, and under a caller whose decimal context is tiny
            bad = [lambda: enc_f(None), lambda: enc_f("7"), lambda: enc_f([1]), lambda: dec_f(None), lambda: dec_f(7), lambda: enc_f()]
            with decimal.localcontext() as ctx_:
                ctx_.prec = 2
                for n in (0, 252, 253, 64009, B ** 3, B ** 4 - 1, 123456789):
                    e = refcodec.ref_encode(n)
                    got = after_failures(bad, lambda: (enc_f(n), dec_f(e)))
                    if got != ("ok", (e, n)):
                        raise Violation("encode_independent_of_call_history", {"kind": "seq", "ns": [n], "after_failed_calls": True},
                                        [e.hex(), n], [str(x) for x in got], "valid calls after calls that raised")
            res.extra["calls_after_failed_calls"] = 7
            ns = sorted(set(list(range(0, 600)) + [B ** 2 - 1, B ** 2, B ** 3 - 1, B ** 3, B ** 4 - 1]
                            + [i * 7919 % (B ** 4) for i in range(1, 1500)]))
            bss = [bytes([a, b, c_, d]).hex() for a in (0, 1, 0x80, 0xFD, 0xFE, 0xFF) for b in (0, 2, 0xFE, 0xFF)
                   for c_ in (1, 0xFE) for d in (0, 3, 0xFE)] + ["", "05", "fe01", "0102030405"]
            jobs = [{"fn": "encode_number", "arg": n} for n in ns] + [{"fn": "decode_number", "arg": h} for h in bss]
            for flag in ("-O", "-OO", "-Werror", "-bb", "-Xdev"):
                got = optrun.run(jobs, flag)
                for job, g in zip(jobs, got):
                    exp = refcodec.ref_encode(job["arg"]).hex() if job["fn"] == "encode_number" \
                        else refcodec.ref_decode(bytes.fromhex(job["arg"]))
                    if g != exp:
                        raise Violation("holds_under_optimized_interpreter", {"kind": "opt", "job": job, "flag": flag}, exp, g)
                res.extra["optimized_interpreter_calls"] = res.extra.get("optimized_interpreter_calls", 0) + len(jobs)
            # first use from several threads at once, in fresh interpreters: results are the same pure function
            for rnd in range(task.get("rounds", 6)):
                sub = jobs[rnd::6][:400]
                got = optrun.run(sub, "-B", threads=8)
                for job, g in zip(sub, got):
                    exp = refcodec.ref_encode(job["arg"]).hex() if job["fn"] == "encode_number" \
                        else refcodec.ref_decode(bytes.fromhex(job["arg"]))
                    if g != exp:
                        raise Violation("independent_of_concurrent_first_use",
                                        {"kind": "first_use", "jobs": sub, "threads": 8, "failing_job": job}, exp, g)
                res.extra["concurrent_first_use_calls"] = res.extra.get("concurrent_first_use_calls", 0) + len(sub)
            return res
        if kind == "enc3":          # d2 range, d3 = 0
            res.shards_total = 1
            for d2 in range(task["lo"], task["hi"]):
                _range_for_top(enc_f, dec_f, (0, d2), res)
            res.shards_done = 1
            res.sample({"n": task["lo"] * B * B + 300, "encoded": enc_f(task["lo"] * B * B + 300).hex()})
        elif kind == "enc4":        # one d3 value, all d2
            res.shards_total = 1
            d3 = task["d3"]
            for d2 in range(B):
                _range_for_top(enc_f, dec_f, (d3, d2), res)
            res.shards_done = 1
        elif kind == "dec":         # all byte strings with a first byte in range, length 1..3 (+ empty)
            res.shards_total = 1
            ref = refcodec.ref_decode
            if task["lo"] == 0:
                if dec_f(b"") != 0:
                    raise Violation("decode_matches_formula", {"kind": "bytes", "hex": ""}, 0, dec_f(b""))
                res.evaluations += 1
            special = (0x00, 0xFE, 0xFF)
            for a in range(task["lo"], task["hi"]):
                va = 0 if a == 0xFE else a - 1
                for bs in (bytes([a]),):
                    if dec_f(bs) != va:
                        raise Violation("decode_matches_formula", {"kind": "bytes", "hex": bs.hex()}, va, dec_f(bs))
                for b in range(256):
                    stop_b = a == 0xFE
                    vb = va if (stop_b or b == 0xFE) else va + (b - 1) * B
                    bs2 = bytes([a, b])
                    g = dec_f(bs2)
                    if g != vb:
                        raise Violation("decode_matches_formula", {"kind": "bytes", "hex": bs2.hex()}, vb, g)
                    stop_c = stop_b or b == 0xFE
                    for cc in range(256):
                        vc = vb if (stop_c or cc == 0xFE) else vb + (cc - 1) * B * B
                        bs3 = bytes([a, b, cc])
                        g = dec_f(bs3)
                        if g != vc:
                            raise Violation("decode_matches_formula", {"kind": "bytes", "hex": bs3.hex()}, vc, g)
                n_here = 1 + 256 + 65536
                res.evaluations += n_here
                if a in special:
                    res.nt_count += n_here
                else:
                    res.nt_count += 3 + (3 * 256 + 253 * 3)  # strings with a special byte at pos 1 or 2
            # cross-check the incremental expectation against refcodec on a sub-sample
            for a in range(task["lo"], task["hi"]):
                for b in (0, 1, 0x7F, 0xFD, 0xFE, 0xFF):
                    for cc in (0, 1, 0xFD, 0xFE, 0xFF):
                        bs3 = bytes([a, b, cc])
                        if ref(bs3) != dec_f(bs3):
                            raise Violation("decode_matches_formula", {"kind": "bytes", "hex": bs3.hex()}, ref(bs3), dec_f(bs3))
            res.shards_done = 1
            res.sample({"bytes": bytes([task["lo"], 0xFE, 0x05]).hex(),
                        "decoded": dec_f(bytes([task["lo"], 0xFE, 0x05]))})
        elif kind == "strat4":
            for d3 in range(task["lo"], task["hi"]):
                for d2 in STRATA:
                    for d1 in STRATA:
                        for d0 in STRATA:
                            n = d0 + d1 * B + d2 * B * B + d3 * B ** 3
                            _check_n(enc_f, dec_f, n, bytes([d0 + 1, d1 + 1, d2 + 1, d3 + 1]), 4)
                            res.evaluations += 1
                            res.nt_count += 1
            res.sample({"n": task["lo"] * B ** 3 + 252, "encoded": enc_f(task["lo"] * B ** 3 + 252).hex()})
        elif kind == "hyp":
            def oracle(case):
                try:
                    _oracle(case)
                except Violation:
                    raise
                except Exception as e:  # noqa: BLE001 - the functions are total on these arguments
                    k_ = case[0]
                    cj = ({"kind": "n", "n": case[1]} if k_ == "n" else {"kind": "sub", "n": case[1]} if k_ == "sub"
                          else {"kind": k_, "ns": list(case[1])} if k_ in ("seq", "reuse")
                          else {"kind": "bytes", "hex": bytes(case[1]).hex()})
                    raise Violation("no_exception", cj, "returns", f"{type(e).__name__}: {e}"[:200])

            def _oracle(case):
                res.evaluations += 1
                if case[0] == "n":
                    n = case[1]
                    exp = refcodec.ref_encode(n)
                    k = 4 - exp.count(0xFE)
                    _check_n(enc_f, dec_f, n, exp, k)
                    if 0 in exp or 0xFF in exp:
                        raise Violation("wire_safe", {"kind": "n", "n": n}, "no 00/FF", exp.hex())
                    if n >= B:
                        res.nontrivial(("n", n))
                elif case[0] == "sub":
                    # every integer is an integer: bool, IntEnum members and other int subclasses encode like ints
                    import enum as _enum
                    n = case[1]

                    class _MyInt(int):
                        pass
                    variants = [_MyInt(n), _enum.IntEnum("_E", {"M": n}).M]
                    if n in (0, 1):
                        variants.append(bool(n))
                    exp = refcodec.ref_encode(n)
                    for v in variants:
                        try:
                            got = enc_f(v)
                        except Exception as e:  # noqa
                            got = f"raised {type(e).__name__}"
                        if got != exp:
                            raise Violation("encode_accepts_int_subclasses", {"kind": "sub", "n": n}, exp.hex(),
                                            got.hex() if isinstance(got, bytes) else got, type(v).__name__)
                    res.nontrivial(("sub", n))
                elif case[0] == "reuse":
                    # one receive buffer, refilled in place between decodes (also as a memoryview window)
                    buf = bytearray(4)
                    for m in case[1]:
                        buf[:] = refcodec.ref_encode(m)
                        for view in (buf, memoryview(buf)):
                            g = dec_f(view)
                            if g != m:
                                raise Violation("decode_independent_of_call_history", {"kind": "reuse", "ns": list(case[1])},
                                                m, g, "same buffer object refilled in place")
                    res.nontrivial(("reuse",) + tuple(case[1]))
                elif case[0] == "seq":
                    # history independence: the encoding of the last number must not depend on
                    # which numbers were encoded / decoded before it
                    for m in case[1][:-1]:
                        enc_f(m)
                        dec_f(refcodec.ref_encode(m))
                    n = case[1][-1]
                    exp = refcodec.ref_encode(n)
                    got = enc_f(n)
                    if got != exp:
                        raise Violation("encode_independent_of_call_history", {"kind": "seq", "ns": list(case[1])},
                                        exp.hex(), bytes(got).hex())
                    if dec_f(got) != n:
                        raise Violation("encode_independent_of_call_history", {"kind": "seq", "ns": list(case[1])},
                                        n, dec_f(got))
                    res.nontrivial(("seq",) + tuple(case[1]))
                else:
                    bs = case[1]
                    g = dec_f(bs)
                    e = refcodec.ref_decode(bs)
                    if g != e:
                        raise Violation("decode_matches_formula", {"kind": "bytes", "hex": bs.hex()}, e, g)
                    if dec_f(bytearray(bs)) != e:
                        raise Violation("decode_matches_formula", {"kind": "bytearray", "hex": bs.hex()}, e, dec_f(bytearray(bs)))
                    if any(x in bs for x in (0, 0xFE, 0xFF)):
                        res.nontrivial(("b", bs.hex()))
                    res.sample({"bytes": bs.hex(), "decoded": g})
            boundary = [0, 1, 252, 253, 254, 64008, 64009, 64010, B ** 3 - 1, B ** 3, B ** 3 + 1, B ** 4 - 1]
            ints = st.one_of(st.integers(0, B ** 4 - 1), st.sampled_from(boundary),
                             st.builds(lambda d, lo: d * B ** 3 + lo, st.integers(1, 252),
                                       st.sampled_from([0, 1, 252, 253, 64008, 64009, B ** 3 - 1])))
            special = st.sampled_from([0, 1, 0xFD, 0xFE, 0xFF])
            bts = st.lists(st.one_of(st.integers(0, 255), special), min_size=0, max_size=8).map(bytes)
            widths = st.sampled_from([0, 252, 253, 64008, 64009, B ** 3 - 1, B ** 3, B ** 4 - 1])
            anyw = st.one_of(ints, widths, st.integers(0, 252), st.integers(253, 64008), st.integers(64009, B ** 3 - 1))
            seqs = st.lists(anyw, min_size=2, max_size=4).map(tuple)
            strat = st.one_of(st.tuples(st.just("n"), ints), st.tuples(st.just("b"), bts),
                              st.tuples(st.just("seq"), seqs), st.tuples(st.just("reuse"), seqs),
                              st.tuples(st.just("sub"), st.one_of(anyw, st.integers(0, 1))))
            hyp.campaign(strat, oracle, task["n"], task["seed"], res)
    except Violation as v:
        res.violation(v)
    return res


def plan(tier, seed):
    tasks = []
    step = 8
    for lo in range(0, B, step):
        tasks.append({"kind": "enc3", "lo": lo, "hi": min(B, lo + step)})
    for lo in range(0, 256, 8):
        tasks.append({"kind": "dec", "lo": lo, "hi": lo + 8})
    for lo in range(1, B, 32):
        tasks.append({"kind": "strat4", "lo": lo, "hi": min(B, lo + 32)})
    n = 40000 if tier == "quick" else 400000
    for w in range(8):
        tasks.append({"kind": "hyp", "n": n // 8, "seed": seed * 1000 + w})
    tasks.append({"kind": "opt"})
    if tier == "thorough":
        for d3 in range(1, B):
            tasks.append({"kind": "enc4", "d3": d3})
    return tasks


def replay(case):
    try:
        _replay(case)
    except Violation:
        raise
    except Exception as e:  # noqa: BLE001
        raise Violation("no_exception", case, "returns", f"{type(e).__name__}: {e}"[:200])


def _replay(case):
    c = loader.core()
    enc_f, dec_f = c.data.encode_number, c.data.decode_number
    if case["kind"] in ("sub", "reuse"):
        import enum as _enum
        if case["kind"] == "sub":
            n = case["n"]
            for v in (type("_MyInt", (int,), {})(n), _enum.IntEnum("_E", {"M": n}).M):
                try:
                    got = enc_f(v)
                except Exception as e:  # noqa
                    got = f"raised {type(e).__name__}"
                if got != refcodec.ref_encode(n):
                    raise Violation("encode_accepts_int_subclasses", case, refcodec.ref_encode(n).hex(), repr(got))
        else:
            buf = bytearray(4)
            for m in case["ns"]:
                buf[:] = refcodec.ref_encode(m)
                if dec_f(buf) != m or dec_f(memoryview(buf)) != m:
                    raise Violation("decode_independent_of_call_history", case, m, dec_f(buf))
        return
    if case["kind"] == "first_use":
        from vlib import optrun
        for _ in range(5):      # the schedule is the operating system's: the saved jobs are re-issued a few times
            got = optrun.run(case["jobs"], "-B", threads=case["threads"])
            for job, g in zip(case["jobs"], got):
                exp = refcodec.ref_encode(job["arg"]).hex() if job["fn"] == "encode_number" else refcodec.ref_decode(bytes.fromhex(job["arg"]))
                if g != exp:
                    raise Violation("independent_of_concurrent_first_use", case, exp, g)
        return
    if case["kind"] == "opt":
        from vlib import optrun
        job = case["job"]
        g = optrun.run([job], case["flag"])[0]
        exp = refcodec.ref_encode(job["arg"]).hex() if job["fn"] == "encode_number" else refcodec.ref_decode(bytes.fromhex(job["arg"]))
        if g != exp:
            raise Violation("holds_under_optimized_interpreter", case, exp, g)
        return
    if case["kind"] == "seq":
        for m in case["ns"][:-1]:
            enc_f(m)
            dec_f(refcodec.ref_encode(m))
        n = case["ns"][-1]
        exp = refcodec.ref_encode(n)
        got = enc_f(n)
        if got != exp or dec_f(got) != n:
            raise Violation("encode_independent_of_call_history", case, exp.hex(), bytes(got).hex())
        return
    if case["kind"] == "n":
        n = case["n"]
        exp = refcodec.ref_encode(n)
        _check_n(enc_f, dec_f, n, exp, 4 - exp.count(0xFE))
    else:
        bs = bytes.fromhex(case["hex"])
        if case["kind"] == "bytearray":
            bs = bytearray(bs)
        g = dec_f(bs)
        e = refcodec.ref_decode(bs)
        if g != e:
            raise Violation("decode_matches_formula", case, e, g)
