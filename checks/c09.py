"""C09 - EoWriter validates atomically and sanitises exactly when asked (DESIGN 5/C09).

A case is one JSON value {"ops": [op, ...]} (1-40 ops) interpreted against a fresh EoWriter and a
fresh RefWriter twin; op is
    ["mode", bool]                                   string_sanitization_mode = bool
    ["byte"|"char"|"short"|"three"|"int", v]         v >= 0, any size
    ["bytes", hex]
    ["string", s] ["estring", s]
    ["fixed", s, L, padded] ["efixed", s, L, padded]  L >= 0 below / equal / above len(s)
After every op: if the twin says INVALID the call must have raised ValueError and
to_bytearray()/len() must be what they were; otherwise the call must have returned and
to_bytearray() must equal the twin's bytes, len() its length; the mode must read back as set.
"""
from hypothesis import strategies as st

from vlib import hyp, loader, refcodec, refio, wrgen
from vlib.runner import TaskResult, Violation

PROPERTY = "C09"
LEVEL = "exploration"
RULE = (
    "Hypothesis draws one JSON case = a list of 1-40 writer operations (each op is one drawn 64-byte "
    "blob decoded through fixed tables; the list length comes from three bands 1-40 / 8-40 / 20-40): "
    "mode := b (1/8 of the ops, b True 5/8 of the time), add_byte/char/short/"
    "three/int with v >= 0 (3/8 in range with boundary bias; 3/8 from limit-2..limit+2, 2*limit, 256, "
    "253^4, 2^31, 2^32, 2^63, 2^64, 10^30; 2/8 uniform in [limit, limit+2^70)), add_bytes (0-8 bytes "
    "biased to 00/FE/FF), add_string, add_encoded_string, add_fixed_string and "
    "add_fixed_encoded_string with length = len(s)+d, d in {-3..-1, 0, 1, 2, 5, 40} (negative lengths included: never acceptable), "
    "padded both ways; strings are arbitrary Unicode from the biased alphabet with ÿ "
    "over-represented. The ops are interpreted step by step against a fresh EoWriter and a "
    "RefWriter twin. Non-trivial: the history has >= 1 rejected write after >= 1 accepted write AND "
    ">= 1 accepted string write containing ÿ with sanitisation on AND >= 1 with it off; "
    "distinct by the whole case."
)
EXHAUSTIVE = {}
ASSUMPTIONS = [
    "RefWriter (written from the property statement; pinned by the repository's literal writer "
    "vectors in its self test) defines 'declared number of bytes', the cp1252 image and the limits "
    "256 / 253 / 253^2 / 253^3 / 253^4",
    "string length arguments are compared with len(s) in characters; every character occupies one "
    "byte on the wire (unencodable ones, lone surrogates included, as '?')",
    "negative integers are outside the domain and never generated; a negative length can never be honoured "
    "('appends exactly the declared number of bytes'), so such writes must be refused",
]
NT_FLOOR = 0.10

INT_KINDS = ("byte", "char", "short", "three", "int")
STR_KINDS = ("string", "estring", "fixed", "efixed")


def selftest():
    refcodec.selftest()
    refio.selftest()
    good = {"ops": [["char", 252], ["char", 253], ["mode", True], ["string", "aÿ€"],
                    ["fixed", "ÿb", 4, True], ["fixed", "abc", 2, True], ["mode", False],
                    ["efixed", "ÿ\x81", 2, False], ["efixed", "ÿ", 2, False], ["int", 2 ** 64],
                    ["byte", 256], ["byte", 255], ["bytes", "ff00"], ["estring", "ÿ~"],
                    ["short", 64009], ["three", 253 ** 3], ["int", 253 ** 4 - 1]]}
    assert in_domain(good)
    st_ = check_case(wrgen.fake_core(), good)
    assert st_["nontrivial"], st_
    assert not in_domain({"ops": [["char", -1]]})
    assert in_domain({"ops": [["fixed", "a", -1, True]]}) and not in_domain({"ops": [["fixed", "a", -9, True]]})
    assert not in_domain({"ops": []})

    class Partial(wrgen.FakeWriter):       # appends before it validates
        def add_short(self, v):
            if v >= 253 ** 2:
                self._m.data.extend(refcodec.ref_encode(v % 253 ** 4)[:2])
                raise ValueError("late")
            super().add_short(v)

    class PadThenSanitise(wrgen.FakeWriter):
        def add_fixed_string(self, s, n, padded=False):
            super().add_fixed_string(s, n, padded)
            if n and self._m.sanitize:
                self._m.data[-n:] = bytes(self._m.data[-n:]).replace(b"\xff", b"y")

    for bad in (wrgen.fake_core(writer=Partial), wrgen.fake_core(writer=PadThenSanitise)):
        try:
            check_case(bad, good)
        except Violation:
            continue
        raise AssertionError("oracle accepted a broken implementation")


# -------------------------------------------------------------------------------------------
# domain

def in_domain(case):
    try:
        ops = case["ops"]
        if not 1 <= len(ops) <= 40:
            return False
        for op in ops:
            k = op[0]
            if k == "mode":
                ok = isinstance(op[1], bool)
            elif k in INT_KINDS:
                ok = type(op[1]) is int and op[1] >= 0
            elif k == "bytes":
                bytes.fromhex(op[1])
                ok = True
            elif k in STR_KINDS:
                ok = isinstance(op[1], str) and not any(0xD800 <= ord(ch) <= 0xDFFF for ch in op[1])
                if k in ("fixed", "efixed"):
                    ok = ok and type(op[2]) is int and op[2] >= -8 and isinstance(op[3], bool)
            else:
                ok = False
            if not ok:
                return False
        return True
    except (KeyError, IndexError, TypeError, ValueError):
        return False


# -------------------------------------------------------------------------------------------
# oracle

class _Masked(str):
    """Every str is a str: subclasses with their own __str__/__repr__ (a str-valued Enum member, a secret that
    prints as ***) are written as the characters they hold."""

    def __str__(self):
        return "<masked>"

    __repr__ = __str__

    def __format__(self, spec_):
        return "<masked>"


def _apply(w, op):
    """Same call shape for EoWriter and RefWriter (RefWriter returns INVALID instead of raising)."""
    k = op[0]
    if k in ("string", "estring", "fixed", "efixed") and len(op[1]) % 3 == 1:
        op = [k, _Masked(op[1])] + list(op[2:])
    if k == "byte":
        return w.add_byte(op[1])
    if k == "char":
        return w.add_char(op[1])
    if k == "short":
        return w.add_short(op[1])
    if k == "three":
        return w.add_three(op[1])
    if k == "int":
        return w.add_int(op[1])
    if k == "bytes":
        buf = bytearray.fromhex(op[1])   # lent for the call only, scribbled over afterwards
        try:
            return w.add_bytes(buf)
        finally:
            for i in range(len(buf)):
                buf[i] ^= 0x5A
            buf.extend(b"\xff\x00\xfe")
    if k == "string":
        return w.add_string(op[1])
    if k == "estring":
        return w.add_encoded_string(op[1])
    if k == "fixed":
        return w.add_fixed_string(op[1], op[2], op[3])
    if k == "efixed":
        return w.add_fixed_encoded_string(op[1], op[2], op[3])
    raise KeyError(k)


def _snapshot(w):
    """-> (bytes, len) or raises Violation-ready text"""
    return bytes(w.to_bytearray()), len(w)


def check_case(c, case, res=None):
    ops = case["ops"]
    w = c.data.EoWriter()
    m = refio.RefWriter()
    accepted = 0
    rejected_after_accept = False
    yd = {True: False, False: False}   # accepted string write containing ÿ seen with mode on / off
    n_rej = 0
    status, mode0 = wrgen.call(lambda: w.string_sanitization_mode)
    if status == "exc" or mode0 is not False:
        raise Violation("mode_reads_back", case, False, mode0, "fresh writer")
    for i, op in enumerate(ops):
        k = op[0]
        where = f"step {i} {k}"
        if k == "mode":
            status, val = wrgen.call(setattr, w, "string_sanitization_mode", op[1])
            if status == "exc":
                raise Violation("mode_reads_back", case, "setter returns", val, where)
            m.sanitize = op[1]
            before = bytes(m.data)
            verdict = None
        else:
            before = bytes(m.data)
            verdict = _apply(m, op)
            exc, _ = wrgen.call_exc(_apply, w, op)
            if verdict is refio.INVALID:
                if exc is None:
                    status, snap = wrgen.call(_snapshot, w)
                    raise Violation("invalid_write_raises:" + k, case, "ValueError", "returned normally",
                                    f"{where}; contents now {snap!r}"[:300])
                if not isinstance(exc, ValueError):
                    raise Violation("invalid_write_raises:" + k, case, "ValueError",
                                    f"{type(exc).__name__}: {exc}"[:200], where)
                n_rej += 1
                if accepted:
                    rejected_after_accept = True
            else:
                if exc is not None:
                    raise Violation("valid_write_accepted:" + k, case, "returns",
                                    f"{type(exc).__name__}: {exc}"[:200], where)
                accepted += 1
                if k in STR_KINDS and "ÿ" in op[1]:
                    yd[bool(m.sanitize)] = True
        status, snap = wrgen.call(_snapshot, w)
        if status == "exc":
            raise Violation("to_bytearray", case, "bytes, len", snap, where)
        data, length = snap
        exp = bytes(m.data)
        if verdict is refio.INVALID:
            if data != before or length != len(before):
                raise Violation("rejected_write_leaves_contents:" + k, case,
                                [before.hex(), len(before)], [data.hex(), length], where)
        elif data != exp:
            clause = "contents_unchanged_by_mode" if k == "mode" else "appended_bytes:" + k
            raise Violation(clause, case, exp[len(before):].hex(),
                            data[len(before):].hex() if data[:len(before)] == before else data.hex(),
                            f"{where}; bytes appended by this step (or whole contents if the earlier "
                            f"bytes changed); sanitize={m.sanitize}")
        elif length != len(exp):
            raise Violation("len_matches", case, len(exp), length, where)
        status, mode = wrgen.call(lambda: w.string_sanitization_mode)
        if status == "exc" or mode is not m.sanitize:
            raise Violation("mode_reads_back", case, m.sanitize, mode, where)
    nontrivial = rejected_after_accept and yd[True] and yd[False]
    if res is not None:
        res.labels["ops:" + ("1-5" if len(ops) <= 5 else "6-15" if len(ops) <= 15 else "16-40")] += 1
        res.labels["rejected_writes"] += n_rej
        res.labels["accepted_writes"] += accepted
        if rejected_after_accept:
            res.labels["has:reject_after_accept"] += 1
        if yd[True]:
            res.labels["has:y_diaeresis_sanitised"] += 1
        if yd[False]:
            res.labels["has:y_diaeresis_raw"] += 1
        for op in ops:
            res.labels["op:" + op[0]] += 1
        if nontrivial:
            res.nontrivial(case)
            res.sample({"case": case, "final_contents": bytes(m.data).hex()}, limit=2)
    return {"nontrivial": nontrivial}


# -------------------------------------------------------------------------------------------
# generator

KIND_TABLE = ("char", "mode", "byte", "short", "three", "int", "bytes", "string", "estring", "fixed",
              "efixed", "fixed", "efixed", "mode", "string", "estring")
LEN_DELTA = (0, 0, 0, 1, 2, 5, 40, -1, -1, -2, -3)
# over-represented characters: y-diaeresis, and lone surrogates (strings decoded with surrogateescape carry them;
# they have no windows-1252 image and are written as '?' like every other unencodable character)
HOT = "ÿÿÿÿÿÿ\udc80\udcff\ud83d"


def decode_op(bs):
    bits = wrgen.Bits(bs)
    k = bits.pick(KIND_TABLE)
    if k == "mode":
        return [k, bits.below(8) >= 3]
    if k in INT_KINDS:
        return [k, wrgen.any_nonneg_int(bits, k)]
    if k == "bytes":
        n = bits.below(9)
        return [k, bytes(bits.pick((0x00, 0xFE, 0xFF)) if bits.below(4) == 0 else bits.below(256)
                         for _ in range(n)).hex()]
    if k in ("string", "estring"):
        return [k, wrgen.text(bits, 10, hot=HOT)]
    s = wrgen.text(bits, 8, hot=HOT)
    if bits.below(24) == 0:
        # a large field (hundreds of padding bytes when padded; a sure rejection when not)
        return [k, s, bits.pick((253, 254, 255, 256, 300, 1000, 64009)), bits.below(4) != 0]
    return [k, s, len(s) + bits.pick(LEN_DELTA), bits.below(2) == 1]     # may be negative: never acceptable


def case_strategy():
    op = wrgen.blob().map(decode_op)
    # three length bands so that long histories are not rare (Hypothesis' lists average ~min+5)
    def build(ops):
        # the same number written twice in a row, the second time into a (possibly) narrower field
        for i in range(1, len(ops)):
            a, b = ops[i - 1], ops[i]
            if a[0] in INT_KINDS and b[0] in INT_KINDS and a[0] != b[0] and (a[1] + i) % 3 == 0:
                ops[i] = [b[0], a[1]]
        return {"ops": ops}
    return st.one_of(st.lists(op, min_size=1, max_size=40), st.lists(op, min_size=8, max_size=40),
                     st.lists(op, min_size=20, max_size=40)).map(build)


def long_cases():
    """Deterministic histories with long strings: hundreds of break characters, thousands of separate runs of
    characters without a windows-1252 image, with sanitisation on and off."""
    texts = ["\u00ff" * 300, "a\u00ff" * 400, "\u00ff" * 70000, "a\u0416" * 3000, "\u0434\u0430 \u043d\u0435\u0442 " * 1500,
             "\u65e5" * 5000, "x" * 65536 + "\u00ff"]
    out = []
    for t in texts:
        for mode in (True, False):
            out.append({"ops": [["mode", mode], ["char", 1], ["string", t], ["estring", t], ["fixed", t, len(t), False],
                                ["efixed", t, len(t) + 3, True], ["fixed", t, len(t) - 1, True], ["short", 2]]})
    return out


# -------------------------------------------------------------------------------------------
# runner API

def run_task(task):
    c = loader.core()
    res = TaskResult()

    def oracle(case):
        res.evaluations += 1
        check_case(c, case, res)

    if task.get("kind") == "long":
        for case in long_cases():
            res.evaluations += 1
            try:
                check_case(c, case, None)
            except Violation as v:
                v.case = {"long_case": long_cases().index(case)}
                res.violation(v)
                break
            res.nontrivial(["long", len(case["ops"][2][1]), case["ops"][0][1], case["ops"][2][1][:4]])
        return res
    if hyp.campaign(case_strategy(), oracle, task["n"], task["seed"], res) is not None:
        wrgen.minimise_last_violation(res, in_domain, lambda case: check_case(c, case))
    return res


def plan(tier, seed):
    total = 16000 if tier == "quick" else 200000
    workers = 16
    return [{"n": -(-total // workers), "seed": seed * 1000 + w} for w in range(workers)] + [{"kind": "long"}]


def finalize(merged, tier):
    nt = len(merged["nt_hashes"]) + merged["nt_count"]
    ev = max(1, merged["evaluations"])
    if merged["violations"]:
        return None
    if nt / ev < NT_FLOOR:
        merged["warnings"].append(f"non-trivial share {nt / ev:.3f} below the floor {NT_FLOOR}")
    if nt < 100 or nt / ev < NT_FLOOR / 4:
        return f"non-trivial cases {nt} of {ev} evaluations"
    return None


def replay(case):
    if "long_case" in case:
        return check_case(loader.core(), long_cases()[case["long_case"]])
    if not in_domain(case):
        return  # outside the property's domain: nothing is claimed
    check_case(loader.core(), case)
