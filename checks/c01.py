"""C01 - generated serializers round-trip every well-formed message (DESIGN 5/C01)."""
from hypothesis import strategies as st

from vlib import gencase, genpkg, hyp, refcodec, refio, spec, specgen, valuegen
from vlib.refinterp import Huge, Interp, Invalid, Unspecified, strip_sizes
from vlib.runner import TaskResult, Violation

PROPERTY = "C01"
LEVEL = "exploration"
RULE = ("Hypothesis grammar-based generator of protocol.xml trees in the canonical (wire-unambiguous) "
        "profile, fed to the real code generator; for up to 3 struct/packet classes per tree, 4 valid "
        "objects each. Domain filter: a (spec, value) pair is in the domain iff the REFERENCE interpreter "
        "round-trips it and consumes every byte (the format itself can carry the value); pairs outside are "
        "counted as format_lossy and skipped. Oracle: with a fresh EoWriter/EoReader, deserialize(serialize(v)) "
        "equals v field-by-field (exact types, enum class + ordinal incl. unknown ordinals, tuples, case-data "
        "class identity, None for absent optionals), reader.remaining == 0, position == len(bytes), "
        "byte_size == len(bytes) and nested byte_size values equal the reference's attribution. "
        "Non-trivial: in-domain object with >= 1 of {nested struct, non-empty array, present optional, "
        "selected non-empty case, unknown enum ordinal, length-governed member}; distinct by (xml, class, object).")
ASSUMPTIONS = [
    "the reference interpreter only delimits the domain (which values the format can carry); expected "
    "values are the original objects themselves",
]
NT_EVENTS = {"struct", "array", "optional_present", "case_body", "unknown_enum", "len_governed"}
FEATURES = {}


def selftest():
    refcodec.selftest()
    refio.selftest()


def check_case(case, res=None):
    tree = case["tree"]
    with gencase.Session(tree) as s:
        if res is not None:
            res.evaluations += 1
        if not s.usable:
            if res is not None:
                res.labels["generator_or_import_failed(C18)"] += 1
                res.labels["failed:" + repr(s.error or s.import_error)[:160]] += 1
            return
        an = s.an
        for it in case["items"]:
            c = gencase.find_class(an, it["cls"])
            cls = s.cls(c)
            for oj in it["objs"]:
                obj = valuegen.from_json(oj)
                ip = Interp(an)
                try:
                    ref_bytes = ip.serialize(c["body"], obj, False, False)
                    ip2 = Interp(an)
                    outcome, back, rr = ip2.deserialize(c["body"], ref_bytes, False, False)
                except (Invalid, Unspecified, Huge):
                    if res is not None:
                        res.labels["obj:not_valid"] += 1
                    continue
                if outcome != "ok" or strip_sizes(back) != obj or rr.pos != len(ref_bytes):
                    if res is not None:
                        res.labels["obj:format_lossy"] += 1
                    continue
                cj = {"tree": tree, "xml": gencase.xml_of(tree),
                      "items": [{"cls": it["cls"], "dir": it["dir"], "objs": [oj]}]}
                try:
                    inst = s.builder.build(cls, c["body"], obj)
                except Exception as e:
                    raise Violation("valid_value_constructible", cj, "instance", f"{type(e).__name__}: {e}")
                w = s.writer(False)
                try:
                    cls.serialize(w, inst)
                except Exception as e:
                    raise Violation("serialize_valid_value", cj, ref_bytes.hex(), f"{type(e).__name__}: {e}")
                data = bytes(w.to_bytearray())
                r = s.reader(data)
                try:
                    out = cls.deserialize(r)
                except Exception as e:
                    raise Violation("deserialize_own_output", cj, "object", f"{type(e).__name__}: {e}", data.hex())
                expected = dict(back) if data == ref_bytes else dict(obj)
                d = valuegen.compare(an, c["body"], out, expected, sizes=(data == ref_bytes))
                if d:
                    raise Violation("round_trip_equal", cj, d[1], d[2], f"at {d[0]} bytes={data.hex()}")
                if r.remaining != 0 or r.position != len(data):
                    raise Violation("consumes_exactly", cj, len(data), r.position, f"remaining={r.remaining}")
                if out.byte_size != len(data):
                    raise Violation("byte_size_equals_written", cj, len(data), out.byte_size)
                if res is not None:
                    res.labels["obj:round_tripped"] += 1
                    for e in ip.events:
                        res.labels["ev:" + e] += 1
                    if ip.events & NT_EVENTS:
                        res.nontrivial([cj["xml"], it["cls"], oj])
                        res.sample({"class": ".".join(it["cls"]), "object": oj, "bytes": data.hex(),
                                    "events": sorted(ip.events)}, limit=3)


@st.composite
def cases(draw):
    c = draw(gencase.tree_and_items(features=FEATURES, n_classes=3, n_objects=4, with_mode=False,
                                    value_kw={"safe_strings": True}, tree_kw={"canonical": True},
                                    top_level_only=True))
    return c


def run_task(task):
    from vlib import specgen as _sg
    _sg.set_tier(task.get("_tier"))
    res = TaskResult()
    try:
        hyp.campaign(cases(), lambda c: check_case(c, res), task["n"], task["seed"], res,
                     shrink_budget=task.get("shrink", 150))
    finally:
        genpkg.cleanup_tmpbase()
    return res


def plan(tier, seed):
    total = 6400 if tier == "quick" else 40000
    W = 16
    return [{"n": total // W, "seed": seed * 1000 + w, "shrink": 150 if tier == "quick" else 1500}
            for w in range(W)]


def finalize(m, tier):
    rt = m["labels"].get("obj:round_tripped", 0)
    if rt < 300:
        return f"only {rt} objects round-tripped"
    return None


def replay(case):
    try:
        check_case(case, None)
    finally:
        genpkg.cleanup_tmpbase()
