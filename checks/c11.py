"""C11 - server verification hash equals the game client's arithmetic (DESIGN 5/C11).

Every one of the 253^3 = 16,194,277 challenges of the three-byte field is evaluated, in both
tiers, against the published formula computed with an explicit truncating (C-style) remainder
that is written here and shares nothing with the code under test.
"""
from vlib import loader
from vlib.runner import TaskResult, Violation

PROPERTY = "C11"
LEVEL = "exploration"
N_CHALLENGES = 253 ** 3          # 16,194,277
DOC_BOUND = 11_092_110           # "Should be no larger than 11,092,110"
INT_MAX = 253 ** 4
FIRST_NEGATIVE_DIVIDEND = 11_092_004   # challenge + 1 > 11,092,004  <=>  challenge >= 11,092,004
SHARDS = 64

_TEXT = ("exhaustive: every challenge 0..253^3-1 (16,194,277 values, 64 contiguous shards); the hash "
         "must equal the published formula evaluated with the harness' truncating remainder, and "
         "for challenge <= 11,092,110 lie in [0, 253^4). Non-trivial: challenges >= 11,092,004, "
         "whose dividend 11092004-(challenge+1) is negative so that truncating and floor "
         "remainder differ (5,102,273 values, distinct by construction); the subset whose "
         "dividend is an exact multiple of the modulus is counted under "
         "labels['negative dividend, exact multiple'].")
RULE = {"quick": _TEXT, "thorough": _TEXT}
EXHAUSTIVE = {
    "quick": "all 16,194,277 challenges 0..253^3-1",
    "thorough": "all 16,194,277 challenges 0..253^3-1",
}
ASSUMPTIONS = [
    "the game client computes 110905 + (c%9+1) * ((11092004-c) % ((c%11+1)*119)) * 119 + c%2004 "
    "with c = challenge+1 in C integer arithmetic (remainder truncates toward zero); pinned in "
    "the self-test by the repository's 15 literal vectors, seven of which have a negative dividend "
    "and two a negative result",
    "no 32-bit overflow occurs in the client: every intermediate is below 2^31 in magnitude "
    "(checked in the self-test by bounding the factors)",
]

# the 15 literal pairs of /repo/tests/encrypt/test_server_verification_utils.py
VECTORS = [
    (0, 114000), (1, 115191), (2, 229432), (5, 613210), (12345, 266403), (100_000, 145554),
    (5_000_000, 339168), (11_092_003, 112773), (11_092_004, 112655), (11_092_005, 112299),
    (11_092_110, 11016), (11_092_111, -2787), (11_111_111, 103749), (12_345_678, -32046),
    (253 ** 3 - 1, 105960),
]


def trem(a, b):
    """C remainder: sign(a) * (|a| mod |b|); the quotient truncates toward zero."""
    if b == 0:
        raise ZeroDivisionError("trem by zero")
    m = abs(a) % abs(b)
    return -m if a < 0 else m


def ref_hash(challenge):
    c = challenge + 1
    return (110905
            + (trem(c, 9) + 1) * trem(11092004 - c, (trem(c, 11) + 1) * 119) * 119
            + trem(c, 2004))


def selftest():
    # truncating remainder against the definition a == trunc(a/b)*b + r, |r| < |b|, sign(r) == sign(a)
    for a in range(-40, 41):
        for b in (-7, -3, -1, 1, 2, 3, 7, 119):
            r = trem(a, b)
            q = abs(a) // abs(b) * (1 if (a < 0) == (b < 0) else -1)
            assert q * b + r == a and abs(r) < abs(b) and (r == 0 or (r < 0) == (a < 0)), (a, b, r)
    assert trem(-238, 119) == 0 and trem(-239, 119) == -1 and trem(-1, 119) == -1 and trem(5, 119) == 5
    for ch, h in VECTORS:
        assert ref_hash(ch) == h, ("reference formula disagrees with a repository vector", ch, h, ref_hash(ch))
    # no 32-bit overflow: |product| <= 9 * 1308 * 119 < 2^31
    assert 110905 + 9 * (11 * 119 - 1) * 119 + 2003 < 2 ** 31
    assert FIRST_NEGATIVE_DIVIDEND == min(ch for ch in range(11_092_000, 11_092_010) if 11092004 - (ch + 1) < 0)
    assert ref_hash(DOC_BOUND) >= 0 and ref_hash(DOC_BOUND + 1) < 0


def _check_one(f, ch):
    """The complete oracle for one challenge; returns the value the code produced."""
    exp = ref_hash(ch)
    try:
        got = f(ch)
    except Exception as e:  # noqa
        raise Violation("hash_equals_c_arithmetic", {"challenge": ch}, exp,
                        f"raised {type(e).__name__}: {e}")
    if got != exp or type(got) is not int:
        raise Violation("hash_equals_c_arithmetic", {"challenge": ch}, exp, repr(got),
                        "published formula with truncating remainder (an int, as the EO int field needs)")
    if ch <= DOC_BOUND and not (0 <= got < INT_MAX):
        raise Violation("nonnegative_eo_int_up_to_documented_bound", {"challenge": ch},
                        "0 <= hash < 253^4", got)
    return got


_SUB = """
import sys, types, json
repo = sys.argv[1]
m = types.ModuleType('eolib'); m.__path__ = [repo + '/src/eolib']; sys.modules['eolib'] = m
from eolib.encrypt.server_verification_utils import server_verification_hash as f
out = []
for ch in json.loads(sys.argv[2]):
    try:
        out.append(f(ch))
    except Exception as e:
        out.append('raised ' + type(e).__name__)
print(json.dumps(out))
"""


def _optimized_interpreter(res):
    """Configuration spot check: the same arithmetic under `python -O` / `-OO` (assert statements and
    docstrings stripped) on the repository's 15 vector inputs, a stride over the whole range and the
    neighbourhood of the sign change."""
    import json
    import subprocess
    import sys
    from vlib.runner import REPO
    chs = sorted(set([ch for ch, _ in VECTORS] + list(range(0, N_CHALLENGES, 4099)) +
                     list(range(11092000, 11092600)) + [N_CHALLENGES - 1]))
    for flag in ("-O", "-OO", "-Werror", "-bb", "-Xdev"):
        r = subprocess.run([sys.executable, "-B", flag, "-c", _SUB, REPO, json.dumps(chs)],
                           capture_output=True, text=True)
        if r.returncode != 0:
            from vlib import optrun
            if optrun.library_fault(r.stderr):
                res.violation(Violation("hash_under_optimized_interpreter", {"challenge": chs[0], "pyflag": flag},
                                        ref_hash(chs[0]), optrun.fault_line(r.stderr), f"python {flag}: library unusable"))
                return
            raise RuntimeError(f"python {flag} helper failed: {r.stderr[-800:]}")
        got = json.loads(r.stdout.strip().splitlines()[-1])
        res.extra["optimized_interpreter_calls"] = res.extra.get("optimized_interpreter_calls", 0) + len(chs)
        for ch, g in zip(chs, got):
            if g != ref_hash(ch):
                res.violation(Violation("hash_under_optimized_interpreter", {"challenge": ch, "pyflag": flag},
                                        ref_hash(ch), g, f"python {flag}"))
                return


def run_task(task):
    c = loader.core()
    f = c.verification.server_verification_hash
    res = TaskResult()
    res.shards_total = 1
    lo, hi = task["lo"], task["hi"]
    seen_clause = set()
    mism = 0
    neg = exact = 0
    for ch in range(lo, hi):
        try:
            _check_one(f, ch)
        except Violation as v:
            mism += 1
            if v.clause not in seen_clause:     # ascending order: the first is the smallest
                seen_clause.add(v.clause)
                res.violation(v)
        if ch >= FIRST_NEGATIVE_DIVIDEND:
            neg += 1
            cc = ch + 1
            if (11092004 - cc) % ((cc % 11 + 1) * 119) == 0:
                exact += 1
    # the hash is a pure function: asking again (immediately, and later in reverse order) must give
    # the same answer - exercised on a strided subset of the shard
    sub = list(range(lo, hi, 61))
    rep = 0
    for ch in sub + sub[::-1]:
        for _ in range(2):
            rep += 1
            try:
                got = f(ch)
            except Exception as e:  # noqa
                got = f"raised {type(e).__name__}"
            if got != ref_hash(ch) and "repeat" not in seen_clause:
                seen_clause.add("repeat")
                res.violation(Violation("hash_independent_of_call_history", {"challenge": ch, "repeat": True},
                                        ref_hash(ch), got, "same challenge asked again"))
    res.extra["repeated_calls"] = rep
    if task["idx"] == 0:
        _optimized_interpreter(res)
        from vlib.afterfail import after_failures
        for ch in (12345, 11092110, 16194276):
            got = after_failures([lambda: f(None), lambda: f("12"), lambda: f([]), lambda: f(b"1"), lambda: f()],
                                 lambda: f(ch))
            if got != ("ok", ref_hash(ch)):
                res.violation(Violation("hash_independent_of_call_history", {"challenge": ch, "after_failed_calls": True},
                                        ref_hash(ch), list(got), "valid call made after calls that raised"))
                break
        res.extra["calls_after_failed_calls"] = 3
        # the caller's arithmetic context is the caller's business: a thread that works with a tiny decimal
        # precision (and traps everything) gets the same integers
        import decimal
        with decimal.localcontext() as ctx_:
            ctx_.prec = 2
            for sig in (decimal.Inexact, decimal.Rounded):
                ctx_.traps[sig] = True
            for ch in list(range(0, 3000, 7)) + list(range(890000, 16194277, 40009)):
                try:
                    got = f(ch)
                except Exception as e:  # noqa
                    got = f"raised {type(e).__name__}"
                if got != ref_hash(ch):
                    res.violation(Violation("hash_equals_c_arithmetic:any_decimal_context", {"challenge": ch, "decimal_prec": 2},
                                            ref_hash(ch), got, "called with decimal.getcontext().prec == 2"))
                    break
        res.extra["calls_under_tiny_decimal_context"] = 811
    n = hi - lo
    res.evaluations += n
    res.nt_count += neg
    if n - neg:
        res.labels["dividend >= 0"] += n - neg
    if neg - exact:
        res.labels["negative dividend, not a multiple"] += neg - exact
    if exact:
        res.labels["negative dividend, exact multiple"] += exact
    res.extra["disagreeing_challenges"] = mism
    mid = lo + (hi - lo) // 2
    try:
        if task["idx"] % 11 == 0:
            res.sample({"challenge": mid, "hash": f(mid), "reference": ref_hash(mid)}, limit=1)
    except Exception:  # noqa: already reported above
        pass
    res.shards_done = 1
    return res


def plan(tier, seed):
    # identical in both tiers and for every seed: the domain is finite and fully enumerated
    bounds = [N_CHALLENGES * i // SHARDS for i in range(SHARDS + 1)]
    return [{"idx": i, "lo": bounds[i], "hi": bounds[i + 1]} for i in range(SHARDS)]


def finalize(m, tier):
    if m["evaluations"] != N_CHALLENGES:
        return f"enumerated {m['evaluations']} challenges instead of {N_CHALLENGES}"
    if m["nt_count"] != N_CHALLENGES - FIRST_NEGATIVE_DIVIDEND:
        return f"{m['nt_count']} negative-dividend challenges instead of {N_CHALLENGES - FIRST_NEGATIVE_DIVIDEND}"
    return None


def replay(case):
    c = loader.core()
    f = c.verification.server_verification_hash
    ch = int(case["challenge"])
    if case.get("pyflag"):
        class _R:
            extra = {}
            violations = []

            def violation(self, v):
                raise v
        import json
        import subprocess
        import sys
        from vlib.runner import REPO
        r = subprocess.run([sys.executable, "-B", case["pyflag"], "-c", _SUB, REPO, json.dumps([ch])],
                           capture_output=True, text=True)
        got = json.loads(r.stdout.strip().splitlines()[-1])[0]
        if got != ref_hash(ch):
            raise Violation("hash_under_optimized_interpreter", case, ref_hash(ch), got)
        return
    _check_one(f, ch)
    if case.get("decimal_prec"):
        import decimal
        with decimal.localcontext() as ctx_:
            ctx_.prec = case["decimal_prec"]
            try:
                got = f(ch)
            except Exception as e:  # noqa
                got = f"raised {type(e).__name__}"
        if got != ref_hash(ch):
            raise Violation("hash_equals_c_arithmetic:any_decimal_context", case, ref_hash(ch), got)
    if case.get("after_failed_calls"):
        from vlib.afterfail import after_failures
        got = after_failures([lambda: f(None), lambda: f("12"), lambda: f([]), lambda: f(b"1"), lambda: f()], lambda: f(ch))
        if got != ("ok", ref_hash(ch)):
            raise Violation("hash_independent_of_call_history", case, ref_hash(ch), list(got))
    if case.get("repeat"):
        for _ in range(3):
            got = f(ch)
            if got != ref_hash(ch):
                raise Violation("hash_independent_of_call_history", case, ref_hash(ch), got)
