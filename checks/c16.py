"""C16 - invalid objects are refused, never silently mis-serialized (DESIGN 5/C16)."""
import sys

from hypothesis import strategies as st

from vlib import gencase, genpkg, hyp, objedit, refcodec, refio, spec, specgen, valuegen
from vlib.refinterp import Huge, Interp, Invalid, Unspecified
from vlib.runner import TaskResult, Violation

PROPERTY = "C16"
LEVEL = "exploration"
RULE = ("Hypothesis grammar-based generator of protocol.xml trees fed to the real code generator; for up to "
        "3 classes per tree, valid objects each changed by ONE declaration-violating edit at a drawn member "
        "at any depth: required member := None; fixed string/array length +-1..3; padded string too long; "
        "length-field-governed member beyond max(T)+offset; integer / enum ordinal / array element := limit, "
        "limit+1, 2^40; case data := None / sibling case instance / instance for an empty case. Only edits "
        "the reference serializer actually reaches (it must refuse the object) are evaluated. Oracle: "
        "serialize raises SerializationError or ValueError and does not return. Non-trivial: the edited "
        "member is nested (depth >= 1) or output had already been produced when the refusal came; distinct "
        "by (xml, class, edited object).")
ASSUMPTIONS = [
    "which edits are reached is decided by the reference interpreter (members after a missing optional, "
    "case data without a matching case and hardcoded members are not edit targets)",
    "objects the generated constructor itself refuses are not objects (counted, skipped)",
]
FEATURES = {}


def selftest():
    refcodec.selftest()
    refio.selftest()


def check_case(case, res=None):
    tree = case["tree"]
    with gencase.Session(tree) as s:
        if res is not None:
            res.evaluations += 1
        if not s.usable:
            if res is not None:
                res.labels["generator_or_import_failed(C18)"] += 1
            return
        an = s.an
        SerErr = sys.modules["eolib.protocol.serialization_error"].SerializationError
        for it in case["items"]:
            c = gencase.find_class(an, it["cls"])
            cls = s.cls(c)
            obj = valuegen.from_json(it["obj"])
            kind = it["kind"]
            try:
                Interp(an).serialize(c["body"], obj, c["lex"], it["mode"])
                if res is not None:
                    res.labels["skip:edit_not_reached"] += 1
                continue
            except Invalid:
                pass
            except (Unspecified, Huge):
                if res is not None:
                    res.labels["skip:unspecified"] += 1
                continue
            try:
                inst = s.builder.build(cls, c["body"], obj)
            except Exception as e:  # noqa
                if res is not None:
                    res.labels[f"skip:ctor_{type(e).__name__}:{kind}"] += 1
                continue
            cj = {"tree": tree, "xml": gencase.xml_of(tree), "items": [it]}
            w = s.writer(it["mode"])
            try:
                cls.serialize(w, inst)
            except SerErr:
                raised = "SerializationError"
            except ValueError:
                raised = "ValueError"
            except Exception as e:  # noqa
                raise Violation(f"refused_with_documented_exception:{kind}:{type(e).__name__}", cj,
                                "SerializationError or ValueError", f"{type(e).__name__}: {e}",
                                f"edit {kind} at {it['path']}")
            else:
                raise Violation(f"invalid_object_refused:{kind}", cj, "SerializationError or ValueError",
                                "returned; bytes=" + bytes(w.to_bytearray()).hex(), f"edit {kind} at {it['path']}")
            if res is not None:
                res.labels[f"refused:{kind}:{raised}"] += 1
                if len(it["path"]) > 1 or len(w) > 0:
                    res.nontrivial([cj["xml"], it["cls"], it["obj"]])
                    res.sample({"class": ".".join(it["cls"]), "edit": kind, "path": it["path"],
                                "object": it["obj"], "raised": raised, "bytes_before_refusal": len(w)}, limit=4)


@st.composite
def cases(draw, n_classes=3, n_objects=4):
    tree = dict(draw(specgen.trees(features=FEATURES)))
    tree.pop("_excluded", None)
    an = spec.Analysis(tree)
    classes = an.classes()
    items = []
    if classes:
        k = min(len(classes), n_classes)
        idxs = gencase.pick_classes(draw, an, classes, k)
        vg = valuegen.ValueGen(an, safe_strings=False, big_lengths=False)
        pick = lambda seq: draw(st.sampled_from(list(seq)))  # noqa
        for i in idxs:
            c = classes[i]
            for _ in range(n_objects):
                obj = vg.body(draw, c["body"])
                r = objedit.apply(an, c["body"], obj, pick, lambda b: vg.body(draw, b))
                if r is None:
                    continue
                o2, kind, path = r
                items.append({"cls": c["path"], "dir": c["dir"], "obj": valuegen.to_json(o2), "kind": kind,
                              "path": list(path), "mode": draw(st.booleans())})
    return {"tree": tree, "items": items}


def run_task(task):
    from vlib import specgen as _sg
    _sg.set_tier(task.get("_tier"))
    res = TaskResult()
    try:
        hyp.campaign(cases(), lambda c: check_case(c, res), task["n"], task["seed"], res,
                     shrink_budget=task.get("shrink", 150))
    finally:
        genpkg.cleanup_tmpbase()
    return res


def plan(tier, seed):
    total = 4000 if tier == "quick" else 40000
    W = 16
    return [{"n": total // W, "seed": seed * 1000 + w, "shrink": 150 if tier == "quick" else 1500}
            for w in range(W)]


def finalize(m, tier):
    n = sum(v for k, v in m["labels"].items() if k.startswith("refused:"))
    if n < 300:
        return f"only {n} refusals observed"
    return None


def replay(case):
    try:
        check_case(case, None)
    finally:
        genpkg.cleanup_tmpbase()
