"""C05 - EoReader follows the chunked-reading model and never leaves its data (DESIGN 5/C05).

Two engines share one oracle (`run_history`):

* bounded-exhaustive: every data string over {00,01,FE,FF} of length <= 5 x every operation
  sequence of length <= 3 (quick) / <= 4 (thorough) over MENU, walked as a tree (the state after a
  prefix is forked, see ASSUMPTIONS; every 64th leaf is re-run from scratch without forking);
* Hypothesis: (data, op list) drawn from one strategy and interpreted by `run_history`, so a
  failing history shrinks and replays as one JSON value {"data": hex, "ops": [[reader, name, a, b]]}.

Every real reader is a slice of a larger buffer (8 sentinel bytes on each side) and every history is
run with two sentinel patterns (AA..BB and all FF); both must equal the RefReader twin after every
operation, for every reader in the pool.
"""
import os
from operator import methodcaller

from hypothesis import strategies as st

from vlib import hyp, loader, refcodec, refio
from vlib.refio import RefReader
from vlib.runner import TaskResult, Violation

PROPERTY = "C05"
LEVEL = "exploration"

ALPHABET = (0x00, 0x01, 0xFE, 0xFF)
MAXLEN = 5
DEPTH = {"quick": 3, "thorough": 4}
NSHARDS = 64
HYP_WORKERS = 16
HYP_CASES = {"quick": 320, "thorough": 6250}     # per worker
SCRATCH_EVERY = 64
PAD = 8
SENTINELS = (("AA/BB", b"\xAA" * PAD, b"\xBB" * PAD), ("FF/FF", b"\xFF" * PAD, b"\xFF" * PAD))
NT_FLOOR = 0.25

NOARG = ("get_byte", "get_char", "get_short", "get_three", "get_int", "get_string",
         "get_encoded_string")
FIXED = ("get_fixed_string", "get_fixed_encoded_string")
SIZE = {"get_byte": 1, "get_char": 1, "get_short": 2, "get_three": 3, "get_int": 4}

# (addresses reader 0?, name, a, b). Ops with root=False address the most recent slice and are
# enumerated only when the pool holds a slice (otherwise they would duplicate the root ops).
MENU_SPEC = (
    (True, "get_byte", None, None),
    (True, "get_char", None, None),
    (True, "get_short", None, None),
    (True, "get_three", None, None),
    (True, "get_int", None, None),
    (True, "get_bytes", 2, None),
    (True, "get_string", None, None),
    (True, "get_encoded_string", None, None),
    (True, "get_fixed_string", 2, None),
    (True, "get_fixed_string", 3, True),
    (True, "get_fixed_encoded_string", 3, True),
    (True, "mode", True, None),
    (True, "mode", False, None),
    (True, "next_chunk", None, None),
    (True, "slice", None, None),
    (True, "slice", 1, 3),
    (True, "slice", 2, None),
    (True, "slice", -1, None),
    (True, "get_fixed_string", -1, None),
    (False, "mode", True, None),
    (False, "next_chunk", None, None),
    (False, "get_short", None, None),
    (False, "get_string", None, None),
    (False, "slice", 1, None),
)

RULE = {
    t: f"engine 1 (exhaustive): every data string over {{00,01,FE,FF}} of length 0..5 (1,365) x every "
       f"operation sequence of length 1..{d} over a 24-op menu (19 ops on reader 0: the 7 argument-less "
       "getters, get_bytes(2), get_fixed_string(2), get_fixed_string(3,padded), "
       "get_fixed_encoded_string(3,padded), mode on, mode off, next_chunk, slice(), slice(1,3), slice(2), "
       "slice(-1), get_fixed_string(-1); 5 ops on the most recent slice, enumerated once a slice exists: "
       "mode on, next_chunk, get_short, get_string, slice(1)); one evaluation = one (data, sequence) "
       "node, checked after its last op. engine 2 (Hypothesis): data of 0..64 bytes with a drawn FF "
       "density, up to 50 ops each naming a reader index modulo pool size, lengths 0..70 and a minority "
       "of negative slice/fixed-string arguments; one evaluation = one history. Each history runs under "
       "two sentinel patterns. Non-trivial: the history contains a successful next_chunk or slice, AND a "
       "sized read requesting more than remaining, AND a read in chunked mode that consumed >= 1 byte "
       "and stopped exactly at a 0xFF break. Exhaustive nodes are distinct by construction; Hypothesis "
       "histories are distinct by hash of (data, ops)."
    for t, d in DEPTH.items()
}
EXHAUSTIVE = {
    t: f"all 1,365 byte strings over {{00,01,FE,FF}} of length <= 5 x all operation sequences of "
       f"length <= {d} over the 24-op menu (ops on 'most recent slice' only where a slice exists); the "
       "Hypothesis engine beyond that bound is sampled, not exhaustive"
    for t, d in DEPTH.items()
}
ASSUMPTIONS = [
    "vlib.refio.RefReader is the documented chunked-reading model (pinned by the reader scripts of "
    "tests/data/test_eo_reader.py transcribed in refio.selftest)",
    "exhaustive engine only: the state of an EoReader is its instance __dict__, so a shallow copy of "
    "it is an equivalent independent reader (used to fork the state after a common prefix; every "
    f"{SCRATCH_EVERY}th leaf and every failing path is re-run from scratch without forking)",
    "negative get_bytes lengths are outside the stated domain and never generated",
]


# ------------------------------------------------------------------------------------------------
# one operation on a real reader or on the model (same method names; only the mode attribute differs)

def _apply(r, name, a, b, real):
    if name == "mode":
        if real:
            r.chunked_reading_mode = a
        else:
            r.chunked = a
        return None
    if name == "get_bytes":
        return r.get_bytes(a)
    if name == "slice":
        if a is None and b is None:
            return r.slice()
        if b is None:
            return r.slice(a)
        if a is None:
            return r.slice(length=b)
        return r.slice(a, b)
    if name in FIXED:
        if b is None:
            return getattr(r, name)(a)
        return getattr(r, name)(a, b)
    if name in NOARG or name == "next_chunk":
        return getattr(r, name)()
    raise ValueError(f"harness: unknown op {name}")


def _compile(name, a, b):
    """(real_fn, model_fn) closures for the exhaustive engine."""
    if name == "mode":
        def fr(r):
            r.chunked_reading_mode = a

        def fm(r):
            r.chunked = a
        return fr, fm

    if name in NOARG or name == "next_chunk":
        f = methodcaller(name)
    elif name == "get_bytes" or (name in FIXED and b is None) or (name == "slice" and a is not None and b is None):
        f = methodcaller(name, a)
    elif name == "slice" and a is None and b is None:
        f = methodcaller(name)
    elif name == "slice" and a is None:
        f = methodcaller(name, length=b)
    else:
        f = methodcaller(name, a, b)
    return f, f


def _size(name, a):
    if name in SIZE:
        return SIZE[name]
    if name == "get_bytes" or name in FIXED:
        return a
    return None


def _is_read(name):
    return name.startswith("get_")


MENU = tuple(
    (root, name, a, b) + _compile(name, a, b) + (_size(name, a), _is_read(name), [0 if root else -1, name, a, b])
    for root, name, a, b in MENU_SPEC
)


def _mk_root(EoReader, data, s, variant=None):
    _, pre, post = SENTINELS[s]
    if variant == "released_view":
        # the caller hands in a memoryview window of its receive buffer and releases its own view afterwards
        # (`with memoryview(buf)[a:b] as w: reader = EoReader(w)`): the reader goes on reading the same bytes
        w = memoryview(pre + data + post)[PAD:PAD + len(data)]
        r = EoReader(w)
        w.release()
        return r
    return EoReader(pre + data + post).slice(PAD, len(data))


def _is_part(v):
    """Is v a mutable part of the reader's own state (an object of a class of the library, a list, a dict)?
    Buffers (bytes, bytearray, memoryview) are the data being read and stay shared, as they are between a
    reader and its slices; tuples, numbers and the like are immutable."""
    if isinstance(v, (list, dict, set)):
        return True
    return (getattr(type(v), "__module__", "") or "").startswith("eolib") and not isinstance(v, (tuple, int, str, bytes))


def _attrs(o):
    d = getattr(o, "__dict__", None)
    if d is not None:
        yield from d.items()
    for klass in type(o).__mro__:
        for name in getattr(klass, "__slots__", ()) or ():
            if name in ("__dict__", "__weakref__"):
                continue
            if name.startswith("__") and not name.endswith("__"):
                name = "_" + klass.__name__.lstrip("_") + name
            try:
                yield name, object.__getattribute__(o, name)
            except AttributeError:
                pass


def _fork(o):
    """An independent reader (or model) in the same state: the instance's own attributes are copied, wherever
    they live (instance dict and/or __slots__), and so are the library objects, lists and dicts they hold
    (a reader may keep its cursor in a helper object); the data buffer stays shared."""
    d = getattr(o, "__dict__", None)
    if d is not None and not hasattr(type(o), "__slots__") and not any(_is_part(v) for v in d.values()):
        n = object.__new__(type(o))
        n.__dict__.update(d)
        return n
    return _deep_fork(o, {})


def _deep_fork(v, memo):
    if id(v) in memo:
        return memo[id(v)]
    if isinstance(v, list):
        n = memo[id(v)] = []
        n.extend(_deep_fork(x, memo) if _is_part(x) else x for x in v)
        return n
    if isinstance(v, dict):
        n = memo[id(v)] = {}
        for k, x in v.items():
            n[k] = _deep_fork(x, memo) if _is_part(x) else x
        return n
    if isinstance(v, set):
        n = memo[id(v)] = set(v)
        return n
    n = memo[id(v)] = object.__new__(type(v))
    for name, x in _attrs(v):
        object.__setattr__(n, name, _deep_fork(x, memo) if _is_part(x) else x)
    return n


def _show(v):
    if isinstance(v, (bytes, bytearray, memoryview)):
        return "bytes:" + bytes(v).hex()
    if isinstance(v, tuple) and len(v) == 2 and v[0] == "exc":
        return "raises " + v[1]
    if v is None or isinstance(v, (int, str, bool)):
        return v
    return f"<{type(v).__name__}>"


def _flags_after(f, name, size, exp, m, rem0):
    """non-triviality bits from the model: 1 = next_chunk/slice, 2 = over-read, 4 = stopped at a break"""
    if type(exp) is tuple:
        return f
    if name == "next_chunk" or name == "slice":
        return f | 1
    if name.startswith("get_"):
        if size is not None and size > rem0:
            f |= 2
        if rem0 > 0 and m.chunked and (size is None or size > rem0):
            bk = m.brk
            if m.pos == bk and bk < len(m.data):
                f |= 4
    return f


# ------------------------------------------------------------------------------------------------
# the oracle: interpret one history from scratch

def _check_reader(case, where, x, m, sname):
    """state of one real reader against its twin; returns nothing, raises Violation"""
    ln = len(m.data)
    try:
        p, r, c = x.position, x.remaining, x.chunked_reading_mode
    except Exception as e:  # noqa: BLE001 - any exception of the code under test is a finding
        raise Violation("state_query_raises", case, "position/remaining/mode readable",
                        type(e).__name__, f"{where} sentinel={sname}: {e}")
    if not (isinstance(p, int) and 0 <= p <= ln):
        raise Violation("bounds", case, f"0 <= position <= {ln}", p, f"{where} sentinel={sname}")
    if not (isinstance(r, int) and r >= 0):
        raise Violation("bounds", case, "remaining >= 0", r, f"{where} sentinel={sname}")
    if p != m.pos:
        raise Violation("position", case, m.pos, p, f"{where} sentinel={sname}")
    if r != m.remaining:
        raise Violation("remaining", case, m.remaining, r, f"{where} sentinel={sname}")
    if c != m.chunked:
        raise Violation("mode", case, m.chunked, c, f"{where} sentinel={sname}")


def _check_content(case, where, x, m, sname):
    """a fresh reader covers exactly the model's sub-range (probed through a throw-away slice)"""
    try:
        got = x.slice(0).get_bytes(len(m.data) + 4)
    except Exception as e:  # noqa: BLE001
        raise Violation("slice_content", case, "bytes:" + m.data.hex(), "raises " + type(e).__name__,
                        f"{where} sentinel={sname}: {e}")
    if not isinstance(got, (bytes, bytearray)) or bytes(got) != m.data:
        raise Violation("slice_content", case, "bytes:" + m.data.hex(), _show(got), f"{where} sentinel={sname}")


def app_reader_factories(EoReader):
    """Application readers derived from the library's (the documented extension point of a plain class): one
    un-masks its payload when it is constructed, one needs an extra constructor argument. A slice of either is
    "an independent reader over exactly the requested clipped sub-range" - of the bytes the reader holds, not
    of bytes passed through the application's constructor a second time."""
    class KeyedReader(EoReader):
        def __init__(self, data=b"", key=0x5A):
            super().__init__(bytes(b ^ key for b in bytes(data)))
            self.key = key

    class SessionReader(EoReader):
        def __init__(self, session, data):
            super().__init__(data)
            self.session = session

    return {"keyed_subclass": lambda buf: KeyedReader(bytes(b ^ 0x5A for b in buf)),
            "session_subclass": lambda buf: SessionReader("session", buf)}


def run_history(EoReader, data, ops, info=None, make=None, variant=None):
    """Runs `ops` on a model pool and on one real pool per sentinel pattern; compares after every
    op. Raises Violation. `info` (dict) receives generator statistics. `make` (default: the class itself)
    constructs the outermost reader, e.g. an application subclass."""
    case = {"data": data.hex(), "ops": [list(o) for o in ops]}
    if variant:
        case["reader"] = variant
    model = [RefReader(data)]
    try:
        pools = [[_mk_root(make or EoReader, data, s, variant)] for s in range(len(SENTINELS))]
    except Exception as e:
        if not variant:
            raise
        raise Violation("slice_is_independent_reader_over_the_subrange:construction", case,
                        "a reader over exactly the given bytes", f"{type(e).__name__}: {e}", f"reader variant {variant}")

    def direct(s, kind, exp, got, where):
        # a disagreement that appears only under the second sentinel pattern means the reader
        # looked outside the data it was given
        if s == 0:
            return Violation(kind, case, exp, got, f"{where} sentinel={SENTINELS[0][0]}")
        return Violation("stays_within_data", case, exp, got,
                         f"[{kind}] {where} sentinel={SENTINELS[s][0]} (pattern {SENTINELS[0][0]} agreed with the model)")

    def guarded(s, fn, *a):
        try:
            fn(*a, SENTINELS[s][0])
        except Violation as v:
            if s != 0:
                v = Violation("stays_within_data", v.case, v.expected, v.actual,
                              f"[{v.clause}] {v.detail} (pattern {SENTINELS[0][0]} agreed with the model)")
            raise v

    for s, pool in enumerate(pools):
        guarded(s, _check_reader, case, "initial reader 0", pool[0], model[0])
        guarded(s, _check_content, case, "initial reader 0", pool[0], model[0])

    flags = 0
    n_exc = 0
    parents = [None]
    for i, (idx, name, a, b) in enumerate(ops):
        t = idx % len(model)
        if name == "drop":
            # the caller lets go of one reader (its last reference): the others carry on undisturbed
            if len(model) > 1:
                model.pop(t)
                parents.pop(t)
                for s, pool in enumerate(pools):
                    pool.pop(t)
                    for j in range(len(model)):
                        guarded(s, _check_reader, case, f"step {i}: reader {t} dropped: state of reader {j}", pool[j], model[j])
                        guarded(s, _check_content, case, f"step {i}: reader {t} dropped: reader {j}", pool[j], model[j])
                if info is not None:
                    info["dropped"] = info.get("dropped", 0) + 1
            continue
        m = model[t]
        rem0 = m.remaining
        try:
            exp = _apply(m, name, a, b, False)
        except (ValueError, RuntimeError) as e:
            exp = ("exc", type(e).__name__)
            n_exc += 1
        where = f"step {i} op {[idx, name, a, b]} on reader {t}"
        e_exc = type(exp) is tuple
        if name == "slice" and not e_exc:
            model.append(exp)
            parents.append(t)
        # pattern 0 is checked completely (value, new reader, every reader's state) before pattern 1,
        # so "stays_within_data" is only reported when pattern 0 agreed with the model on this step
        for s, pool in enumerate(pools):
            try:
                got = _apply(pool[t], name, a, b, True)
            except Exception as e:  # noqa: BLE001 - any exception of the code under test is compared
                got = ("exc", type(e).__name__)
            if e_exc or type(got) is tuple:
                if exp != got:
                    raise direct(s, "exception_type", _show(exp), _show(got), where)
            elif name == "slice":
                if not isinstance(got, EoReader):
                    raise direct(s, "returned_value", "<EoReader>", _show(got), where)
                pool.append(got)
                guarded(s, _check_content, case, where + f" -> reader {len(pool) - 1}", got, model[-1])
            else:
                if isinstance(exp, bytearray):
                    same = isinstance(got, (bytes, bytearray)) and bytes(got) == bytes(exp)
                    if isinstance(got, bytearray):
                        # the returned array belongs to the caller, who may reuse it: scribble over it so
                        # that a buffer the reader keeps sharing shows up in a later read
                        got.extend(b"\xaa\xbb\xcc")
                else:
                    same = type(got) is type(exp) and got == exp
                if not same:
                    raise direct(s, "returned_value", _show(exp), _show(got), where)
            for j in range(len(model)):
                guarded(s, _check_reader, case, where + f": state of reader {j}", pool[j], model[j])
        flags = _flags_after(flags, name, _size(name, a), exp, m, rem0)
    if info is not None:
        info["flags"] = flags
        info["exceptions"] = n_exc
        info["pool"] = len(model)
        info["slice_of_slice"] = any(p not in (None, 0) for p in parents)
    return flags


# ------------------------------------------------------------------------------------------------
# engine 1: bounded-exhaustive tree walk

def all_data():
    out = [b""]
    layer = [b""]
    for _ in range(MAXLEN):
        layer = [p + bytes([c]) for p in layer for c in ALPHABET]
        out.extend(layer)
    return out


def _escalate(EoReader, data, path, why):
    ops = [list(p) for p in path]
    run_history(EoReader, data, ops)
    raise Violation("fork_vs_scratch", {"data": data.hex(), "ops": ops}, "same behaviour from scratch",
                    why, "a forked reader disagreed with the model but the same history run from scratch "
                         "did not: reader state lives outside the instance (or harness assumption broken)")


def explore(EoReader, data, maxd, ctx):
    """Walks the op tree for one data string. ctx: dict of counters."""
    run_history(EoReader, data, [])
    path = []
    depth_nodes = ctx["depth_nodes"]

    def rec(depth, M, A, B, flags):
        n = len(M)
        last = depth + 1 == maxd
        for root, name, a, b, fr, fm, size, _isread, js in MENU:
            if root:
                t = 0
            elif n == 1:
                continue
            else:
                t = n - 1
            m = _fork(M[t])
            rem0 = m.remaining
            try:
                exp = fm(m)
            except (ValueError, RuntimeError) as e:
                exp = ("exc", type(e).__name__)
            ra = _fork(A[t])
            rb = _fork(B[t])
            try:
                ga = fr(ra)
            except Exception as e:  # noqa: BLE001
                ga = ("exc", type(e).__name__)
            try:
                gb = fr(rb)
            except Exception as e:  # noqa: BLE001
                gb = ("exc", type(e).__name__)
            path.append(js)
            new = name == "slice" and type(exp) is not tuple
            if new:
                if not (isinstance(ga, EoReader) and isinstance(gb, EoReader)):
                    _escalate(EoReader, data, path, "slice did not return a reader")
                want = exp.data
                k = len(want) + 4
                try:
                    same = ga.slice(0).get_bytes(k) == want and gb.slice(0).get_bytes(k) == want
                except Exception as e:  # noqa: BLE001 - raised by the code under test
                    _escalate(EoReader, data, path, f"reading the new reader raised {type(e).__name__}")
                if not same:
                    _escalate(EoReader, data, path, "slice content differs")
                ln = len(want)
                try:
                    st_ok = (ga.position, ga.remaining, ga.chunked_reading_mode) == (0, ln, False) and \
                        (gb.position, gb.remaining, gb.chunked_reading_mode) == (0, ln, False)
                except Exception as e:  # noqa: BLE001
                    _escalate(EoReader, data, path, f"state query raised {type(e).__name__}")
                if not st_ok:
                    _escalate(EoReader, data, path, "state of the new reader differs")
            elif ga != exp or gb != exp:
                _escalate(EoReader, data, path, f"returned {_show(ga)} / {_show(gb)}, model {_show(exp)}")
            for j in range(n):
                if j == t:
                    mm, xa, xb = m, ra, rb
                else:
                    mm, xa, xb = M[j], A[j], B[j]
                p, r, c = mm.pos, mm.remaining, mm.chunked
                if not (0 <= p <= len(mm.data) and r >= 0):
                    raise AssertionError(f"harness: model left its data: {data.hex()} {path}")
                try:
                    differs = xa.position != p or xa.remaining != r or xa.chunked_reading_mode != c or \
                        xb.position != p or xb.remaining != r or xb.chunked_reading_mode != c
                except Exception as e:  # noqa: BLE001 - raised by the code under test
                    _escalate(EoReader, data, path, f"state query of reader {j} raised {type(e).__name__}")
                if differs:
                    _escalate(EoReader, data, path, f"state of reader {j} differs")
            f = _flags_after(flags, name, size, exp, m, rem0)
            depth_nodes[depth] += 1
            if f == 7:
                ctx["nt"] += 1
            if last:
                ctx["leaves"] += 1
                if ctx["leaves"] % SCRATCH_EVERY == 0:
                    run_history(EoReader, data, path)
                    ctx["scratch"] += 1
            else:
                M2 = M[:]
                A2 = A[:]
                B2 = B[:]
                M2[t] = m
                A2[t] = ra
                B2[t] = rb
                if new:
                    M2.append(exp)
                    A2.append(ga)
                    B2.append(gb)
                rec(depth + 1, M2, A2, B2, f)
            path.pop()

    rec(0, [RefReader(data)], [_mk_root(EoReader, data, 0)], [_mk_root(EoReader, data, 1)], 0)


# ------------------------------------------------------------------------------------------------
# engine 2: Hypothesis

# Few draws per op (generation cost dominates otherwise): (reader, kind, a, b) with a and b taken from
# one weighted table and interpreted per kind. The recorded case holds the decoded ops, so replay
# does not depend on this encoding.
KINDS = NOARG[:5] * 3 + NOARG[5:] * 2 + ("get_bytes",) * 2 + FIXED * 2 + ("mode_on",) * 6 + ("mode_off",) + \
    ("next_chunk",) * 4 + ("slice",) * 4 + ("drop", "drop")
ARGS = (None, None, -1, -3, 0, 0, 1, 1, 2, 2, 3, 3, 4, 4, 5, 6, 7, 8, 10, 13, 16, 20, 32, 63, 64, 65, 70)
SPECIAL_BYTES = (0x00, 0x01, 0xFD, 0xFE, 0x81, 0x41, 0x7E, 0x22)


def _decode_op(raw):
    idx, kind, a, b = raw
    if kind == "mode_on":
        return [idx, "mode", True, None]
    if kind == "mode_off":
        return [idx, "mode", False, None]
    if kind == "get_bytes":
        return [idx, kind, 0 if a is None else abs(a), None]      # never negative (outside the domain)
    if kind in FIXED:
        return [idx, kind, 2 if a is None else a, None if b is None else bool(b & 1)]
    if kind == "slice":
        return [idx, kind, a, b]
    return [idx, kind, None, None]


def _strategy():
    arg = st.sampled_from(ARGS)
    ridx = st.sampled_from((0, 0, 0, 1, 2, 3, 5, -1, -1))      # modulo pool size; -1 = most recent
    op = st.tuples(ridx, st.sampled_from(KINDS), arg, arg).map(_decode_op)
    pos = st.integers(0, 63)

    @st.composite
    def case(draw):
        # st.lists(max_size=N) alone averages ~5 elements: draw the sizes first
        dlen = draw(st.integers(0, 64))
        data = bytearray(draw(st.binary(min_size=dlen, max_size=dlen)))
        if dlen:
            nff = draw(st.sampled_from((0, 1, 2, 3, 4, 5, 8, 13, 24)))      # FF density of this case
            for p in draw(st.lists(pos, min_size=nff, max_size=nff)):
                data[p % dlen] = 0xFF
            for p, v in draw(st.lists(st.tuples(pos, st.sampled_from(SPECIAL_BYTES)), max_size=6)):
                data[p % dlen] = v
        olen = draw(st.integers(0, 50))
        ops = draw(st.lists(op, min_size=olen, max_size=50))
        if draw(st.booleans()):         # half of the histories start in chunked mode
            ops = [[0, "mode", True, None]] + ops[:49]
        return {"data": bytes(data).hex(), "ops": ops}

    return case()


# ------------------------------------------------------------------------------------------------
# runner API

class _RefAdapter(RefReader):
    """RefReader behind the real reader's interface (state in the instance, like EoReader) - used
    only by selftest() to show that the oracle plumbing accepts a faithful implementation and
    rejects broken ones."""
    BREAK = None

    def slice(self, index=None, length=None):
        sub = type(self)(RefReader.slice(self, index, length).data)
        if self.BREAK == "peek":        # looks at the byte after the sub-range it was given
            at = self.data.find(sub.data, min(len(self.data), index or 0)) + len(sub.data)
            sub.after = self.data[at:at + 1]
        return sub

    position = property(lambda self: self.pos)

    @property
    def remaining(self):
        if self.BREAK == "no_min" and self.chunked:
            return self.brk - self.pos
        if self.BREAK == "peek" and getattr(self, "after", b"") == b"\xff":
            return RefReader.remaining.fget(self) + 1
        return RefReader.remaining.fget(self)

    @property
    def chunked_reading_mode(self):
        return self.chunked

    @chunked_reading_mode.setter
    def chunked_reading_mode(self, v):
        self.chunked = v
        if self.BREAK == "rechunk":
            self.chunk_start = self.pos


def selftest():
    refcodec.selftest()
    refio.selftest()
    assert len(all_data()) == 1365
    assert len(MENU) == 24
    h = [[0, "get_three", None, None], [0, "mode", True, None], [0, "slice", None, None],
         [1, "get_string", None, None], [0, "next_chunk", None, None], [0, "get_int", None, None],
         [0, "slice", -1, None], [0, "get_fixed_string", -2, True], [3, "next_chunk", None, None]]
    d = bytes([1, 2, 0xFF, 3, 0xFF, 0xFF, 4])
    faithful = type("Faithful", (_RefAdapter,), {})
    run_history(faithful, d, h)
    for brk in ("no_min", "rechunk"):
        broken = type("Broken", (_RefAdapter,), {"BREAK": brk})
        try:
            run_history(broken, d, h)
        except Violation:
            continue
        raise AssertionError(f"oracle accepted the broken reader {brk}")
    try:        # a reader that is only wrong when the byte after its data is FF: sentinel clause
        run_history(type("Peek", (_RefAdapter,), {"BREAK": "peek"}), b"\x01\x02", [[0, "get_byte", None, None]])
        raise AssertionError("oracle accepted the peeking reader")
    except Violation as v:
        assert v.clause == "stays_within_data", v
    # the non-triviality bits
    info = {}
    run_history(faithful, bytes([1, 0xFF, 1]),
                [[0, "mode", True, None], [0, "get_int", None, None], [0, "next_chunk", None, None]], info)
    assert info["flags"] == 7, info
    ctx = {"depth_nodes": [0, 0], "nt": 0, "leaves": 0, "scratch": 0}
    explore(faithful, b"\x01\xff", 2, ctx)
    assert ctx["depth_nodes"][0] == 19 and ctx["depth_nodes"][1] == 16 * 19 + 3 * 24, ctx


def run_task(task):
    c = loader.core()
    EoReader = c.data.EoReader
    res = TaskResult()
    try:
        if task["kind"] == "exh":
            res.shards_total = 1
            maxd = task["depth"]
            ctx = {"depth_nodes": [0] * maxd, "nt": 0, "leaves": 0, "scratch": 0}
            datas = all_data()
            mine = [d for i, d in enumerate(datas) if i % task["nshards"] == task["shard"]]
            for d in mine:
                explore(EoReader, d, maxd, ctx)
            nodes = sum(ctx["depth_nodes"])
            res.evaluations += nodes
            res.nt_count += ctx["nt"]
            res.labels["exh:data_strings"] += len(mine)
            for k, v in enumerate(ctx["depth_nodes"]):
                res.labels[f"exh:sequences_of_length_{k + 1}"] += v
            res.labels["exh:nontrivial_nodes"] += ctx["nt"]
            res.labels["exh:leaves_rerun_from_scratch"] += ctx["scratch"]
            res.shards_done = 1
            if task["shard"] == 0:
                res.sample({"engine": "exhaustive", "data": mine[-1].hex(),
                            "ops": [MENU[11][8], MENU[4][8], MENU[13][8]][:maxd]})
        elif task["kind"] == "opt":
            import json
            import subprocess
            import sys
            from vlib.runner import REPO, VERIF
            code = ("import sys, json; sys.path.insert(0, %r); sys.dont_write_bytecode = True\n"
                    "from vlib import loader; from vlib.runner import Violation; import checks.c05 as m\n"
                    "c = loader.core(); out = None; n = 0\n"
                    "for case in m.opt_cases():\n"
                    "    n += 1\n"
                    "    try:\n"
                    "        m.run_history(c.data.EoReader, bytes.fromhex(case['data']), case['ops'])\n"
                    "    except Violation as v:\n"
                    "        out = v.to_json(); break\n"
                    "print(json.dumps({'n': n, 'violation': out}))\n") % VERIF
            for flag in ("-O", "-OO", "-Werror", "-bb", "-Xdev"):
                r = subprocess.run([sys.executable, "-B", flag, "-c", code], capture_output=True, text=True,
                                   env=dict(os.environ, VERIF_REPO=REPO, PYTHONHASHSEED="0"))
                if r.returncode != 0:
                    from vlib import optrun
                    if optrun.library_fault(r.stderr):
                        case0 = next(iter(opt_cases()))
                        res.violations.append(Violation("under_optimized_interpreter:library_unusable",
                                                        dict(case0, pyflag=flag), "readers that follow the model",
                                                        optrun.fault_line(r.stderr)).to_json())
                        break
                    raise RuntimeError(f"python {flag} helper failed: {r.stderr[-1200:]}")
                out = json.loads(r.stdout.strip().splitlines()[-1])
                res.extra["optimized_interpreter_histories"] = res.extra.get("optimized_interpreter_histories", 0) + out["n"]
                if out["violation"]:
                    v = out["violation"]
                    v["clause"] = "under_optimized_interpreter:" + v["clause"]
                    v["case"]["pyflag"] = flag
                    res.violations.append(v)
                    break
        elif task["kind"] == "atheris":
            # secondary engine (thorough tier): coverage-guided fuzzing of (data, history) byte programs with
            # the same lockstep oracle, in a subprocess (libFuzzer ends the process)
            import json
            import re
            import subprocess
            import sys
            import tempfile
            from vlib.runner import VERIF
            d = tempfile.mkdtemp(prefix="c05fuzz_")
            try:
                outp = os.path.join(d, "out.json")
                r = subprocess.run([sys.executable, "-B", os.path.join(VERIF, "vlib", "fuzz_c05.py"), str(task["runs"]),
                                    str(task["seed"]), outp, "1" if task["corpus"] else "0"],
                                   env=dict(os.environ, PYTHONHASHSEED="0"), capture_output=True, text=True)
                out = json.load(open(outp)) if os.path.exists(outp) else None
                m = re.search(r"Done (\d+) runs", r.stderr)
                if out is None and not m:
                    raise RuntimeError(f"atheris run failed: {r.stderr[-1500:]}")
                execs = max(int(m.group(1)) if m else 0, (out or {}).get("execs", 0))
                res.evaluations += execs
                res.labels["atheris:executions"] += execs
                res.labels["atheris:nontrivial_histories"] += (out or {}).get("nontrivial", 0)
                if out and out.get("violation"):
                    res.violations.append(out["violation"])
            finally:
                import shutil
                shutil.rmtree(d, ignore_errors=True)
        elif task["kind"] == "dense":
            for case in dense_length_cases()[task["lo"]::task["step"]]:
                res.evaluations += 1
                res.labels["dense:chunk_lengths"] += 1
                run_history(EoReader, bytes.fromhex(case["data"]), case["ops"], {})
        elif task["kind"] == "long":
            for case in long_cases()[task["lo"]::task["step"]]:
                res.evaluations += 1
                res.labels["long:histories"] += 1
                info = {}
                run_history(EoReader, bytes.fromhex(case["data"]), case["ops"], info)
                if info.get("flags") == 7:
                    res.nontrivial(["long", len(case["data"]) // 2, case["data"][:2], case["ops"]])
        else:
            import zlib
            app = app_reader_factories(EoReader)

            def oracle(case):
                res.evaluations += 1
                info = {}
                data = bytes.fromhex(case["data"])
                run_history(EoReader, data, case["ops"], info)
                sel = zlib.crc32(data) % 8
                if sel < 3:
                    # the same history through an application subclass of the reader, or over a memoryview the
                    # caller has released meanwhile (digest-derived side input)
                    variant = ("keyed_subclass", "session_subclass", "released_view")[sel]
                    run_history(EoReader, data, case["ops"], {}, make=app.get(variant), variant=variant)
                    res.labels["hyp:histories_through_" + variant] += 1
                res.labels["hyp:histories"] += 1
                res.labels["hyp:ops"] += len(case["ops"])
                res.labels["hyp:expected_exceptions"] += info["exceptions"]
                if info["pool"] >= 3:
                    res.labels["hyp:pool>=3"] += 1
                if info.get("dropped"):
                    res.labels["hyp:reader_dropped_while_others_live"] += 1
                if info["slice_of_slice"]:
                    res.labels["hyp:with_slice_of_slice"] += 1
                if 0xFF in data:
                    res.labels["hyp:data_with_FF"] += 1
                for bit, nm in ((1, "next_chunk_or_slice"), (2, "over_read"), (4, "stopped_at_break")):
                    if info["flags"] & bit:
                        res.labels["hyp:with_" + nm] += 1
                if info["flags"] == 7:
                    res.labels["hyp:nontrivial"] += 1
                    res.nontrivial(case)
                    if len(case["ops"]) <= 12:
                        res.sample(dict(case, engine="hypothesis"), limit=2)

            hyp.campaign(_strategy(), oracle, task["n"], task["seed"], res)
    except Violation as v:
        res.violation(v)
    return res


def plan(tier, seed):
    # exhaustive shards first: the runner reports the first violation per clause in task order, and
    # the exhaustive engine's counterexamples are minimal (<= 3 or 4 ops over <= 5 bytes)
    tasks = [{"kind": "exh", "shard": s, "nshards": NSHARDS, "depth": DEPTH[tier]} for s in range(NSHARDS)]
    tasks += [{"kind": "hyp", "n": HYP_CASES[tier], "seed": seed * 1000 + w} for w in range(HYP_WORKERS)]
    tasks += [{"kind": "long", "lo": i, "step": 8} for i in range(8)]
    tasks.append({"kind": "opt"})
    tasks += [{"kind": "dense", "lo": i, "step": 16} for i in range(16)]
    if tier == "thorough" and os.path.isdir(os.path.join(os.path.dirname(os.path.dirname(os.path.abspath(__file__))), ".deps", "atheris")):
        tasks += [{"kind": "atheris", "runs": 60000, "seed": seed * 1000 + 700 + w, "corpus": w % 2 == 0} for w in range(16)]
    return tasks


LONG_LENGTHS = (252, 253, 254, 255, 256, 257, 64007, 64008, 64009, 64010, 65535, 65536, 70001, 200003)


def dense_length_cases():
    """One short history per chunk length L for EVERY L up to 8200 and around selected larger sizes: where
    the first break of a chunk sits must not matter (block-wise or windowed break searches have joints)."""
    big = []
    for centre in (15876, 16384, 32261, 32768, 65030, 65536, 131072):
        big += list(range(centre - 3, centre + 4))
    out = []
    for L in list(range(0, 8201)) + big:
        data = b"\x01" * L + b"\xff\x02\x03\xff\x04"
        h = [[0, "mode", True, None], [0, "get_byte", None, None], [0, "next_chunk", None, None],
             [0, "get_short", None, None], [0, "next_chunk", None, None], [0, "get_char", None, None]]
        out.append({"data": data.hex(), "ops": h})
    return out


def opt_cases():
    """A small fixed set of histories for the interpreter-configuration spot check."""
    out = []
    for data in (b"", b"\x01\x02\xff\x03\xff\xff\x04", b"\xff\x7c\x67", b"\x05\x06\x07\x08\x09"):
        for h in ([[0, "get_int", None, None], [0, "get_int", None, None], [0, "get_byte", None, None]],
                  [[0, "mode", True, None], [0, "get_three", None, None], [0, "next_chunk", None, None],
                   [0, "get_bytes", 9, None], [0, "next_chunk", None, None], [0, "get_string", None, None]],
                  [[0, "get_bytes", 40, None], [0, "mode", True, None], [0, "get_short", None, None],
                   [0, "slice", None, None], [1, "get_fixed_string", 3, True]],
                  [[0, "slice", 1, 3], [1, "mode", True, None], [1, "get_encoded_string", None, None],
                   [1, "get_char", None, None], [0, "get_fixed_encoded_string", 70, False]]):
            out.append({"data": data.hex(), "ops": h})
    return out


def long_cases():
    """Deterministic histories over data with one very long chunk (lengths around the EO type limits
    and beyond a packet size): the model does not depend on how far away a break byte is."""
    out = []
    for L in LONG_LENGTHS:
        for fill in (0x01, 0xFE, 0x00):
            data = bytes([fill]) * L + b"\xff" + b"\x02\x03\xff" + bytes([fill]) * 3
            hs = [
                [[0, "mode", True, None], [0, "get_short", None, None], [0, "get_string", None, None],
                 [0, "next_chunk", None, None], [0, "get_char", None, None], [0, "next_chunk", None, None],
                 [0, "get_int", None, None]],
                [[0, "get_bytes", L + 2, None], [0, "mode", True, None], [0, "get_byte", None, None],
                 [0, "next_chunk", None, None], [0, "get_short", None, None]],
                [[0, "mode", True, None], [0, "slice", None, None], [1, "mode", True, None],
                 [1, "get_fixed_string", L, False], [1, "get_byte", None, None], [1, "next_chunk", None, None],
                 [1, "get_byte", None, None]],
                [[0, "mode", True, None], [0, "next_chunk", None, None], [0, "mode", False, None],
                 [0, "slice", 1, L + 5], [1, "mode", True, None], [1, "get_encoded_string", None, None],
                 [1, "next_chunk", None, None], [1, "get_string", None, None]],
            ]
            for h in hs:
                out.append({"data": data.hex(), "ops": h})
    return out


def finalize(merged, tier):
    lab = merged["labels"]
    n = lab.get("hyp:histories", 0)
    nt = lab.get("hyp:nontrivial", 0)
    if merged["violations"] or n == 0:
        return None
    share = nt / n
    if share < NT_FLOOR:
        merged["warnings"].append(f"Hypothesis engine: non-trivial share {share:.2f} below the tuning floor {NT_FLOOR}")
    if share < NT_FLOOR / 4 or len(merged["nt_hashes"]) < 100:
        return (f"Hypothesis engine: {nt} of {n} histories non-trivial ({len(merged['nt_hashes'])} distinct); "
                f"collapse threshold is share < {NT_FLOOR / 4:.3f} or < 100 distinct")
    return None


def replay(case):
    c = loader.core()
    variant = case.get("reader")
    make = app_reader_factories(c.data.EoReader).get(variant) if variant else None
    run_history(c.data.EoReader, bytes.fromhex(case["data"]), [list(o) for o in case["ops"]], make=make, variant=variant)
