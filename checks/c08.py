"""C08 - EO string encoding is length-preserving, self-inverse and break-safe (DESIGN 5/C08)."""
import itertools

from hypothesis import strategies as st

from vlib import hyp, loader, refcodec
from vlib.runner import TaskResult, Violation

PROPERTY = "C08"
LEVEL = "exploration"

ALPHABET = (0x00, 0x21, 0x22, 0x4F, 0x50, 0x7D, 0x7E, 0x7F, 0xFE, 0xFF)
# neighbours of the swept position in domain (1): all inside 22..7E, on both sides of 0x50,
# none of them in ALPHABET (so domain (1) strings of length >= 2 never coincide with domain (2))
FILLER = (0x30, 0x60, 0x41, 0x7A, 0x25, 0x55, 0x4A, 0x6B)
MAXLEN = {"quick": 5, "thorough": 7}
NSHARD = 50  # domain (2) is split by the first two symbols (100 prefixes, two per shard)

RULE = {
    "quick": "three generators: (1) every length 1..8 x every position x all 256 byte values with fixed "
             "in-range neighbours; (2) every string over {00,21,22,4F,50,7D,7E,7F,FE,FF} of length 0..5; "
             "(3) Hypothesis: binary(max_size=2048), long strings biased to 22..7E and the threshold bytes, "
             "and sized strings of exact drawn length up to 2048. Every case goes through encode, decode, "
             "decode-after-encode and encode-after-decode. Non-trivial: the string has a byte in 22..7E at "
             "a flip position (len - index odd) and one at a non-flip position, and a byte in 22..4F and a "
             "byte in 50..7E. Distinct: (2) by construction; (1) and (3) by hash of the string, and a "
             "Hypothesis string that lies inside domain (2) is not counted again.",
    "thorough": "as quick, with domain (2) up to length 7 (11,111,111 strings) and ten times the Hypothesis "
                "budget. Same non-triviality rule.",
}
EXHAUSTIVE = {
    "quick": "domain (1): lengths 1..8 x position x 256 byte values (fixed neighbours), i.e. every "
             "(byte value, position parity, length parity) combination; domain (2): all strings of length "
             "0..5 over the 10-symbol alphabet {00,21,22,4F,50,7D,7E,7F,FE,FF}. Long strings over the "
             "full alphabet are sampled, not exhaustive",
    "thorough": "domain (1) as quick; domain (2): all strings of length 0..7 over the 10-symbol alphabet. "
                "Long strings over the full alphabet are sampled, not exhaustive",
}
ASSUMPTIONS = [
    "the two 256-entry tables in vlib/refcodec.py are the documented EO string transform (pinned in the "
    "self-test by the repository's six literal vectors in each direction)",
    "encode_string/decode_string are called on bytearray only, as the API documents (in-place)",
]

VECTORS = [
    ("Hello, World!", "!;a-^H s^3a:)"),
    ("We're ¼ of the way there, so ¾ is remaining.", "C8_6_6l2h- ,d ¾ ^, sh-h7Y T>V h7Y g0 ¼ :[xhH"),
    ("64² = 4096", ";fAk b ²=i"),
    ("© FÒÖ BÃR BÅZ 2014", "=nAm EÅ] MÃ] ÖÒY ©"),
    ('Öxxö Xööx "Lëïth Säë" - "Ÿ"', "OŸO D OëäL 7YïëSO UööG öU'Ö"),
    ("Padded with 0xFFÿÿÿÿÿÿÿÿ", "ÿÿÿÿÿÿÿÿ+YUo 7Y6V i:i;lO"),
]


def selftest():
    refcodec.selftest()
    # the rule function
    assert not is_nontrivial(b"")
    assert not is_nontrivial(b"\x30")
    assert not is_nontrivial(b"\x30\x31")          # both below 0x50
    assert is_nontrivial(b"\x30\x60")
    assert not is_nontrivial(b"\x30\x00\x60")      # both at flip positions (len 3, idx 0 and 2)
    assert is_nontrivial(b"\x30\x60\x00")
    # the reference obeys the statement on the full single-byte table (sanity of the model itself)
    for L in (1, 2):
        for i in range(L):
            for v in range(256):
                x = bytearray(FILLER[:L])
                x[i] = v
                _laws(bytes(x), refcodec.ref_encode_string(x), refcodec.ref_decode_string(x),
                      refcodec.ref_decode_string(refcodec.ref_encode_string(x)),
                      refcodec.ref_encode_string(refcodec.ref_decode_string(x)), {"hex": bytes(x).hex()})


def is_nontrivial(x):
    L = len(x)
    flip = plain = lo = hi = False
    for i, c in enumerate(x):
        if 0x22 <= c <= 0x7E:
            if (L - i) & 1:
                flip = True
            else:
                plain = True
            if c < 0x50:
                lo = True
            else:
                hi = True
    return flip and plain and lo and hi


def _hx(b):
    return bytes(b).hex() if isinstance(b, (bytes, bytearray)) else repr(b)


def _laws(x, e, d, de, ed, case):
    """Model-free clauses of the statement. x: input; e = encode(x); d = decode(x);
    de = decode(encode(x)); ed = encode(decode(x))."""
    L = len(x)
    for name, y in (("encode", e), ("decode", d), ("decode_after_encode", de), ("encode_after_decode", ed)):
        if len(y) != L:
            raise Violation("length_preserved", case, L, len(y), name)
    for i in range(L):
        c = x[i]
        if c != 0x7E:
            if de[i] != c:
                raise Violation("decode_after_encode_restores", case, _hx(x), _hx(de), f"index {i}")
            if ed[i] != c:
                raise Violation("encode_after_decode_restores", case, _hx(x), _hx(ed), f"index {i}")
        j = L - 1 - i
        if 0x22 <= c <= 0x7E:
            if not (0x21 <= e[j] <= 0x7D):
                raise Violation("inside_lands_in_21_7D", case, "21..7D", hex(e[j]),
                                f"encode: input index {i} byte {c:#04x} -> output index {j}")
            if not (0x21 <= d[j] <= 0x7D):
                raise Violation("inside_lands_in_21_7D", case, "21..7D", hex(d[j]),
                                f"decode: input index {i} byte {c:#04x} -> output index {j}")
        else:
            if e[j] != c:
                raise Violation("outside_only_moves", case, hex(c), hex(e[j]),
                                f"encode: input index {i} -> mirrored index {j}")
            if d[j] != c:
                raise Violation("outside_only_moves", case, hex(c), hex(d[j]),
                                f"decode: input index {i} -> mirrored index {j}")
    for b in (0x00, 0xFF):
        n = x.count(b)
        for name, y in (("encode", e), ("decode", d)):
            if y.count(b) != n:
                raise Violation("break_bytes_preserved", case, n, y.count(b), f"{name}: count of {b:#04x}")


class _Buffer(bytearray):
    """Every bytearray is a bytearray: callers' own subclasses (a pooled buffer, a packet body) included."""


def _apply(f, x, case, name):
    # every third call hands over an instance of a bytearray subclass
    buf = _Buffer(x) if (len(x) + (x[-1] if x else 0)) % 3 == 0 else bytearray(x)
    # an in-place transform works on buffers other code holds views of (a recv_into window, a reader
    # over the packet): every other call is made while a memoryview export of the buffer is alive
    # (only for buffers of two or more bytes: CPython refuses even a no-op assignment to an EMPTY extended slice
    # of an exported bytearray, which an implementation that works on alternate positions performs for
    # lengths 0 and 1 - that is the interpreter's quirk, not a resize)
    export = memoryview(buf) if len(x) >= 2 and (len(x) + x[0]) % 2 else None
    try:
        f(buf)
    except Exception as ex:  # the statement is total: every byte string is accepted
        raise Violation("no_exception", case, "returns", f"{type(ex).__name__}: {ex}", name)
    return bytes(buf)



def _threaded(funcs_inputs_expected, res, clause_case):
    """Calls that work on DIFFERENT buffers must not disturb each other when they run on different
    threads (the functions are documented as operating in place on the buffer they are given; nothing is
    shared). 4 threads x many calls with a tiny switch interval; a correct library passes whatever the
    interleaving, so this can never raise a false alarm - it only has a chance to expose shared scratch
    state."""
    import sys
    import threading
    old = sys.getswitchinterval()
    bad = []

    def work(k):
        for rep_ in range(60):
            for f, x, exp in funcs_inputs_expected[k::4]:
                buf = bytearray(x)
                try:
                    f(buf)
                except Exception as e:  # noqa
                    bad.append((x.hex(), f"raised {type(e).__name__}"))
                    return
                if bytes(buf) != exp:
                    bad.append((x.hex(), bytes(buf).hex()[:80]))
                    return
    sys.setswitchinterval(1e-6)
    try:
        ts = [threading.Thread(target=work, args=(k,)) for k in range(4)]
        for t in ts:
            t.start()
        for t in ts:
            t.join()
    finally:
        sys.setswitchinterval(old)
    res.extra["threaded_calls"] = res.extra.get("threaded_calls", 0) + 60 * len(funcs_inputs_expected)
    if bad:
        raise Violation("independent_of_concurrent_calls_on_other_buffers", clause_case(bad[0][0]),
                        "the single-threaded result", bad[0][1])


def check(c, x, case=None):
    """The whole oracle for one byte string."""
    x = bytes(x)
    if case is None:
        case = {"hex": x.hex()}
    enc, dec = c.data.encode_string, c.data.decode_string
    e = _apply(enc, x, case, "encode")
    d = _apply(dec, x, case, "decode")
    de = _apply(dec, e, case, "decode(encode)")
    ed = _apply(enc, d, case, "encode(decode)")
    _laws(x, e, d, de, ed, case)
    re_ = refcodec.ref_encode_string(x)
    if e != re_:
        raise Violation("encode_matches_table", case, re_.hex(), e.hex())
    rd = refcodec.ref_decode_string(x)
    if d != rd:
        raise Violation("decode_matches_table", case, rd.hex(), d.hex())
    # the transform is a function of its input: repeating a call (after the calls above, which
    # also handed it the results of the first pass) must give the same answer
    for name, f, first in (("encode", enc, e), ("decode", dec, d), ("encode", enc, e)):
        again = _apply(f, x, case, name + " (repeated)")
        if again != first:
            raise Violation("same_input_same_output", case, first.hex(), again.hex(), f"{name} repeated")


def _in_domain2(x, maxlen):
    return len(x) <= maxlen and all(b in ALPHABET for b in x)


def _strategy():
    inside = st.integers(0x22, 0x7E)
    edge = st.sampled_from([0x00, 0x21, 0x22, 0x23, 0x4E, 0x4F, 0x50, 0x51, 0x7C, 0x7D, 0x7E, 0x7F, 0xFE, 0xFF])
    anyb = st.integers(0, 255)
    mixed = st.lists(st.one_of(inside, edge, anyb), max_size=64).map(bytes)

    @st.composite
    def sized(draw):
        # exact length drawn first, then content by tiling a short drawn motif: long strings without
        # paying Hypothesis' per-byte cost, both length parities, any length up to 2048
        n = draw(st.one_of(st.integers(0, 40), st.integers(41, 2048)))
        motif = draw(st.lists(st.one_of(inside, edge, anyb), min_size=1, max_size=24))
        reps = n // len(motif) + 1
        return bytes((motif * reps)[:n])

    return st.one_of(st.binary(max_size=2048), mixed, sized())


def run_task(task):
    c = loader.core()
    res = TaskResult()
    kind = task["kind"]
    try:
        if kind == "mega":
            L = task["L"]
            for x in (bytes((i * 7 + 3) % 256 for i in range(L)), bytes([0x50, 0x22, 0x7E, 0x41]) * (L // 4) + b"\x50" * (L % 4)):
                check(c, x, {"hex": f"<{L} patterned bytes>", "mega": L})
                res.evaluations += 1
                res.nontrivial(["mega", L, x[:2].hex()])
            return res
        if kind == "threads":
            xs = [bytes((i * 29 + k) % 256 for i in range(n)) for n in (3, 16, 64, 255, 700, 4100) for k in (0, 0x22, 0x50)]
            jobs = [(c.data.encode_string, x, refcodec.ref_encode_string(x)) for x in xs] + \
                   [(c.data.decode_string, x, refcodec.ref_decode_string(x)) for x in xs]
            _threaded(jobs, res, lambda h: {"hex": h, "threads": True})
            return res
        if kind == "opt":
            from vlib import optrun
            from vlib.afterfail import after_failures
            import decimal
            enc_, dec_ = c.data.encode_string, c.data.decode_string
            bad = [lambda: enc_(None), lambda: enc_("abc"), lambda: enc_(b"abc"), lambda: dec_(None), lambda: dec_(5), lambda: dec_()]
            with decimal.localcontext() as ctx_:
                ctx_.prec = 2
                for x in (b"Hello, World!", b"\x22\x7e\x50" * 11, bytes(range(256))):
                    def good(x=x):
                        a, b = bytearray(x), bytearray(x)
                        enc_(a)
                        dec_(b)
                        return bytes(a), bytes(b)
                    got = after_failures(bad, good)
                    if got != ("ok", (refcodec.ref_encode_string(x), refcodec.ref_decode_string(x))):
                        raise Violation("same_input_same_output", {"hex": x.hex(), "after_failed_calls": True}, "table image",
                                        str(got)[:200], "valid calls after calls that raised")
            res.extra["calls_after_failed_calls"] = 3
            xs = [bytes((i * 31 + k) % 256 for i in range(n)) for n in (0, 1, 2, 3, 7, 8, 33, 64) for k in (0, 0x22, 0x4F, 0x7E)]
            xs += [bytes([b]) * n for b in (0x50, 0x7E, 0xFF, 0x21) for n in (1, 2, 5)]
            jobs = [{"fn": f, "arg": x.hex()} for x in xs for f in ("encode_string", "decode_string")]
            for flag in ("-O", "-OO", "-Werror", "-bb", "-Xdev"):
                got = optrun.run(jobs, flag)
                for job, g in zip(jobs, got):
                    x = bytes.fromhex(job["arg"])
                    exp = (refcodec.ref_encode_string(x) if job["fn"] == "encode_string" else refcodec.ref_decode_string(x)).hex()
                    if g != exp:
                        raise Violation("holds_under_optimized_interpreter", {"hex": job["arg"], "opt": [job["fn"], flag]}, exp, g)
                res.extra["optimized_interpreter_calls"] = res.extra.get("optimized_interpreter_calls", 0) + len(jobs)
            # the same calls as the FIRST use of the library in a fresh interpreter, from 8 threads released together
            for rnd in range(4):
                got = optrun.run(jobs, "-B", threads=8)
                _first_use_judge(jobs, got)
                res.extra["concurrent_first_use_calls"] = res.extra.get("concurrent_first_use_calls", 0) + len(jobs)
            return res
        if kind == "long":
            # long strings (packet sized and beyond): patterned content cycling through every byte value,
            # plain runs, and 0xFF-padded tails of odd and even length
            for L in (253, 254, 2049, 4096, 64008, 64009, 64010, 70001) + \
                    ((2 ** 20 - 1, 2 ** 20, 2 ** 20 + 1, 2 ** 21, 2 ** 21 + 1) if task.get("mega") else ()):
                pats = [bytes((i * 7 + L) % 256 for i in range(L)), bytes([0x50]) * L,
                        bytes((0x22 + i % 0x5D) for i in range(L - 5)) + b"\xff" * 5,
                        bytes((0x7E - i % 0x5D) for i in range(L - 4)) + b"\xff" * 4]
                for x in pats:
                    check(c, x)
                    res.evaluations += 1
                    res.nontrivial(["long", L, x[:4].hex()])
            return res
        if kind == "vectors":
            for dec_s, enc_s in VECTORS:
                dbytes, ebytes = refcodec.to_cp1252(dec_s), refcodec.to_cp1252(enc_s)
                got = _apply(c.data.encode_string, dbytes, {"hex": dbytes.hex()}, "encode")
                if got != ebytes:
                    raise Violation("literal_vectors", {"hex": dbytes.hex()}, ebytes.hex(), got.hex(), "encode")
                got = _apply(c.data.decode_string, ebytes, {"hex": ebytes.hex()}, "decode")
                if got != dbytes:
                    raise Violation("literal_vectors", {"hex": ebytes.hex()}, dbytes.hex(), got.hex(), "decode")
                for x in (dbytes, ebytes):
                    check(c, x)
                    res.evaluations += 1
                    if is_nontrivial(x):
                        res.nontrivial(x.hex())
        elif kind == "sweep":       # domain (1), one length per task
            res.shards_total = 1
            L = task["len"]
            for i in range(L):
                for v in range(256):
                    x = bytearray(FILLER[:L])
                    x[i] = v
                    x = bytes(x)
                    check(c, x)
                    res.evaluations += 1
                    res.labels[f"sweep:len{L & 1}:flip{(L - i) & 1}"] += 1
                    if is_nontrivial(x):
                        res.nontrivial(x.hex())
            res.shards_done = 1
            x = bytearray(FILLER[:L])
            x[L // 2] = 0x7E
            res.sample({"input": bytes(x).hex(), "encoded": _apply(c.data.encode_string, x, None, "").hex()})
        elif kind == "alpha":       # domain (2): strings of length `len` whose prefix index is in the shard
            res.shards_total = 1
            L = task["len"]
            if L < 2:
                pools = [[()]] if L == 0 else [[(a,) for a in ALPHABET]]
                prefixes = pools[0] if task["shard"] == 0 else []
                rest = 0
            else:
                allp = list(itertools.product(ALPHABET, repeat=2))
                prefixes = allp[task["shard"]::NSHARD]
                rest = L - 2
            n = nt = 0
            for p in prefixes:
                for tail in itertools.product(ALPHABET, repeat=rest):
                    x = bytes(p + tail)
                    check(c, x)
                    n += 1
                    if is_nontrivial(x):
                        nt += 1
            res.evaluations += n
            res.nt_count += nt
            res.labels[f"alpha:len{L}"] += n
            res.shards_done = 1
            if prefixes and L >= 3:
                x = bytes(prefixes[0] + (0x7E,) * rest)
                res.sample({"input": x.hex(), "decoded": _apply(c.data.decode_string, x, None, "").hex()})
        elif kind == "hyp":
            maxlen = task["maxlen"]

            def oracle(x):
                res.evaluations += 1
                check(c, x)
                L = len(x)
                res.labels["hyp:len" + ("0-8" if L <= 8 else "9-64" if L <= 64 else "65-512" if L <= 512 else "513-2048")] += 1
                if is_nontrivial(x) and not _in_domain2(x, maxlen):
                    res.nontrivial(x.hex())
                    res.labels["hyp:nontrivial"] += 1
                if 8 < L <= 24:
                    res.sample({"input": x.hex(), "encoded": refcodec.ref_encode_string(x).hex()}, limit=2)
            hyp.campaign(_strategy(), oracle, task["n"], task["seed"], res)
    except Violation as v:
        res.violation(v)
    return res


def plan(tier, seed):
    tasks = [{"kind": "vectors"}, {"kind": "long"}, {"kind": "opt"}, {"kind": "threads"}]
    # megabyte strings, one length per task (the reference table walk costs ~1 s per MiB)
    tasks += [{"kind": "mega", "L": L} for L in (2 ** 20 - 1, 2 ** 20, 2 ** 20 + 1, 2 ** 21 + 1)]
    maxlen = MAXLEN[tier]
    for L in range(1, 9):
        tasks.append({"kind": "sweep", "len": L})
    # longest lengths first so the pool is balanced
    for L in range(maxlen, 1, -1):
        for s in range(NSHARD):
            tasks.append({"kind": "alpha", "len": L, "shard": s})
    tasks.append({"kind": "alpha", "len": 1, "shard": 0})
    tasks.append({"kind": "alpha", "len": 0, "shard": 0})
    n = 1500 if tier == "quick" else 15000
    for w in range(16):
        tasks.append({"kind": "hyp", "n": n, "seed": seed * 1000 + w, "maxlen": maxlen})
    return tasks


def finalize(merged, tier):
    lab = merged["labels"]
    hn = lab.get("hyp:nontrivial", 0)
    total = sum(v for k, v in lab.items() if k.startswith("hyp:len"))
    long_ = lab.get("hyp:len65-512", 0) + lab.get("hyp:len513-2048", 0)
    if total and hn < max(100, total // 8):
        return f"only {hn} of {total} Hypothesis strings are non-trivial"
    if total and long_ < total // 40:
        return f"only {long_} of {total} Hypothesis strings are longer than 64 bytes"
    if total and hn < total // 2:
        merged["warnings"].append(f"non-trivial share of Hypothesis strings below one half: {hn}/{total}")
    return None


def _first_use_judge(jobs, got):
    for job, g in zip(jobs, got):
        x = bytes.fromhex(job["arg"])
        exp = (refcodec.ref_encode_string(x) if job["fn"] == "encode_string" else refcodec.ref_decode_string(x)).hex()
        if g != exp:
            raise Violation("independent_of_concurrent_first_use", {"hex": job["arg"], "first_use_jobs": jobs, "fn": job["fn"]}, exp, g)


def replay(case):
    c = loader.core()
    if case.get("first_use_jobs"):
        from vlib import optrun
        for _ in range(5):      # the schedule is the operating system's: re-issued a few times
            _first_use_judge(case["first_use_jobs"], optrun.run(case["first_use_jobs"], "-B", threads=8))
        return
    if case.get("mega"):
        L = case["mega"]
        for x in (bytes((i * 7 + 3) % 256 for i in range(L)), bytes([0x50, 0x22, 0x7E, 0x41]) * (L // 4) + b"\x50" * (L % 4)):
            check(c, x, dict(case))
        return
    if case.get("opt"):
        from vlib import optrun
        fn, flag = case["opt"]
        x = bytes.fromhex(case["hex"])
        g = optrun.run([{"fn": fn, "arg": case["hex"]}], flag)[0]
        exp = (refcodec.ref_encode_string(x) if fn == "encode_string" else refcodec.ref_decode_string(x)).hex()
        if g != exp:
            raise Violation("holds_under_optimized_interpreter", case, exp, g)
        return
    check(c, bytes.fromhex(case["hex"]), case)
