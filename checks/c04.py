"""C04 - EoWriter output read back by EoReader returns the values written (DESIGN 5/C04).

A case is one JSON value {"sanitize": bool, "ops": [op, ...]}; an op is
    ["byte", v] ["bytes", hex] ["char"|"short"|"three"|"int", v]
    ["fixed", s]          add_fixed_string(s, len(s))            / get_fixed_string(len(s))
    ["padded", s, L]      add_fixed_string(s, L, True)           / get_fixed_string(L, True)
    ["efixed", s]         add_fixed_encoded_string(s, len(s))    / get_fixed_encoded_string(len(s))
    ["epadded", s, L]     add_fixed_encoded_string(s, L, True)   / get_fixed_encoded_string(L, True)
    ["string", s] ["estring", s]   (only as the last op)         / get_string, get_encoded_string
The oracle is model-free for the values: what was written must come back (strings as their
cp1252 image from the harness' own table). RefWriter is only used to say, in the detail text of
a violation, on which side of the wire the fault lies.
"""
from hypothesis import strategies as st

from vlib import hyp, loader, refcodec, refio, wrgen
from vlib.runner import TaskResult, Violation

PROPERTY = "C04"
LEVEL = "exploration"
RULE = (
    "Hypothesis draws one JSON case = sanitisation flag (off 2/3, on 1/3) + a list of 0-12 typed "
    "writes (each write is one drawn 64-byte blob decoded through fixed tables): add_byte 0..255, add_bytes (0-8 arbitrary bytes, biased to 00/FE/FF), "
    "add_char/short/three/int in range (uniform | boundary values 253^k-2..253^k+1, limit-1 | "
    "digits drawn from {0,1,2,125,126,127,251,252}), exact-length and padded (field 0-6 longer) fixed "
    "strings, plain and encoded, and optionally one trailing add_string/add_encoded_string as the last "
    "write. Strings are arbitrary Unicode (biased alphabet: ASCII incl. NUL ! \" O P } DEL ? y, "
    "Latin-1 incl. ÿ þ, cp1252-only € Ÿ ™ Š, unencodable C1 controls, "
    "non-Latin-1 and astral characters) minus exactly ÿ in padded strings and ~ in encoded "
    "strings. The output is read back by the matching get_* calls in order on a fresh EoReader. "
    "Non-trivial: >= 3 writes AND >= 1 string write that has a character >= U+0080 or is padded "
    "and shorter than its field AND >= 1 short/three/int write whose value is >= 252 and has a "
    "base-253 digit equal to 0 or 252; distinct by the whole case."
)
EXHAUSTIVE = {}
ASSUMPTIONS = [
    "the harness' own windows-1252 table (refcodec, pinned by the repository's literal vectors) is "
    "the meaning of 'cp1252 image'; lone surrogates are not generated (st.text never yields them)",
    "the reader is used in its default (non-chunked) mode, so 0xFF inside non-padded strings and raw "
    "bytes is ordinary data",
    "with sanitisation on (second family) the expected string is the cp1252 image with ÿ "
    "replaced by y, as C09 states",
]
NT_FLOOR = 0.10  # tuning target for the non-trivial share (measured ~0.25)

INT_KINDS = ("char", "short", "three", "int")
STR_KINDS = ("fixed", "padded", "efixed", "epadded", "string", "estring")


def selftest():
    refcodec.selftest()
    refio.selftest()
    # the reference string codec round-trips every byte except 0x7E at both parities
    for L in (1, 2, 5, 6):
        for b in range(256):
            buf = bytes([b] * L)
            back = refcodec.ref_decode_string(refcodec.ref_encode_string(buf))
            assert (back == buf) == (b != 0x7E), (L, b)
    assert refcodec.to_cp1252("~") == b"\x7e" and [ch for ch in map(chr, range(0x3000))
                                                    if refcodec.to_cp1252(ch) == b"\x7e"] == ["~"]
    assert [ch for ch in map(chr, range(0x3000)) if refcodec.to_cp1252(ch) == b"\xff"] == ["ÿ"]
    good = {"sanitize": False, "ops": [["byte", 255], ["bytes", "00feff"], ["char", 252],
                                        ["short", 253], ["three", 64009], ["int", 253 ** 4 - 1],
                                        ["fixed", "aÿ€\x81"], ["padded", "Ÿb", 5],
                                        ["efixed", "Hello\U0001F600"], ["epadded", "x!", 4],
                                        ["estring", "ÿ tail ™"]]}
    assert in_domain(good)
    fake = wrgen.fake_core()
    check_case(fake, good)
    check_case(fake, dict(good, sanitize=True))
    assert not in_domain({"sanitize": False, "ops": [["string", "a"], ["char", 1]]})
    assert not in_domain({"sanitize": False, "ops": [["padded", "ÿ", 3]]})
    assert not in_domain({"sanitize": False, "ops": [["efixed", "~"]]})
    assert not in_domain({"sanitize": False, "ops": [["char", 253]]})

    # a broken reader / writer must be caught by the same oracle
    class BadReader(wrgen.FakeReader):
        def get_three(self):
            return self._m.get_short()

    class BadWriter(wrgen.FakeWriter):
        def add_fixed_string(self, s, n, padded=False):
            super().add_fixed_string(s.replace("€", "?"), n, padded)

    for bad in (wrgen.fake_core(reader=BadReader), wrgen.fake_core(writer=BadWriter)):
        try:
            check_case(bad, good)
        except Violation:
            continue
        raise AssertionError("oracle accepted a broken implementation")


# -------------------------------------------------------------------------------------------
# domain

def in_domain(case):
    try:
        if not isinstance(case["sanitize"], bool) or len(case["ops"]) > 12:
            return False
        n = len(case["ops"])
        for i, op in enumerate(case["ops"]):
            k = op[0]
            if k == "byte":
                ok = type(op[1]) is int and 0 <= op[1] <= 255
            elif k == "bytes":
                bytes.fromhex(op[1])
                ok = True
            elif k in INT_KINDS:
                ok = type(op[1]) is int and 0 <= op[1] < refcodec.LIMITS[k]
            elif k in STR_KINDS:
                s = op[1]
                ok = isinstance(s, str) and not any(0xD800 <= ord(ch) <= 0xDFFF for ch in s)
                if k in ("padded", "epadded"):
                    ok = ok and type(op[2]) is int and op[2] >= len(s) and "ÿ" not in s
                if k in ("efixed", "epadded", "estring"):
                    ok = ok and "~" not in s
                if k in ("string", "estring"):
                    ok = ok and i == n - 1
            else:
                ok = False
            if not ok:
                return False
        return True
    except (KeyError, IndexError, TypeError, ValueError):
        return False


# -------------------------------------------------------------------------------------------
# oracle

class _Masked(str):
    """Every str is a str: a subclass with its own __str__ is written as the characters it holds."""

    def __str__(self):
        return "<masked>"

    __repr__ = __str__


def _write(w, op):
    k = op[0]
    if k in ("fixed", "padded", "efixed", "epadded", "string", "estring") and len(op[1]) % 3 == 1:
        op = [k, _Masked(op[1])] + list(op[2:])
    if k == "byte":
        w.add_byte(op[1])
    elif k == "bytes":
        # the caller's buffer is only lent for the duration of the call: hand over a mutable
        # bytearray and scribble over it afterwards - the written value is what it held at call time
        buf = bytearray.fromhex(op[1])
        w.add_bytes(buf)
        for i in range(len(buf)):
            buf[i] ^= 0x5A
        buf.extend(b"\xff\x00\xfe")
    elif k == "char":
        w.add_char(op[1])
    elif k == "short":
        w.add_short(op[1])
    elif k == "three":
        w.add_three(op[1])
    elif k == "int":
        w.add_int(op[1])
    elif k == "fixed":
        w.add_fixed_string(op[1], len(op[1]))
    elif k == "padded":
        w.add_fixed_string(op[1], op[2], True)
    elif k == "efixed":
        w.add_fixed_encoded_string(op[1], len(op[1]))
    elif k == "epadded":
        w.add_fixed_encoded_string(op[1], op[2], True)
    elif k == "string":
        w.add_string(op[1])
    elif k == "estring":
        w.add_encoded_string(op[1])
    else:
        raise KeyError(k)


def _read(r, op):
    k = op[0]
    if k == "byte":
        return r.get_byte()
    if k == "bytes":
        return bytes(r.get_bytes(len(op[1]) // 2)).hex()
    if k == "char":
        return r.get_char()
    if k == "short":
        return r.get_short()
    if k == "three":
        return r.get_three()
    if k == "int":
        return r.get_int()
    if k == "fixed":
        return r.get_fixed_string(len(op[1]))
    if k == "padded":
        return r.get_fixed_string(op[2], True)
    if k == "efixed":
        return r.get_fixed_encoded_string(len(op[1]))
    if k == "epadded":
        return r.get_fixed_encoded_string(op[2], True)
    if k == "string":
        return r.get_string()
    if k == "estring":
        return r.get_encoded_string()
    raise KeyError(k)


def _expected(op, sanitize):
    k = op[0]
    if k == "bytes":
        return op[1].lower()
    if k in STR_KINDS:
        return wrgen.image(op[1], sanitize)
    return op[1]


def _model_diag(case, data):
    m = refio.RefWriter()
    m.sanitize = case["sanitize"]
    for op in case["ops"]:
        _write(m, op)  # RefWriter has the writer's method names
    same = bytes(m.data) == data
    return f"output={data.hex()} writer_output_equals_reference_model={same}"


def check_case(c, case, res=None):
    """Raises Violation if the case (assumed in-domain) breaks the property on core `c`."""
    sanitize, ops = case["sanitize"], case["ops"]
    w = c.data.EoWriter()
    if sanitize:
        w.string_sanitization_mode = True
    for i, op in enumerate(ops):
        status, val = wrgen.call(_write, w, op)
        if status == "exc":
            raise Violation("write_accepted:" + op[0], case, "the in-domain write is accepted", val,
                            f"step {i}")
    status, data = wrgen.call(lambda: bytes(w.to_bytearray()))
    if status == "exc":
        raise Violation("to_bytearray", case, "bytes", data)
    status, r = wrgen.call(c.data.EoReader, data)
    if status == "exc":
        raise Violation("reader_constructed", case, "EoReader(data)", r)
    for i, op in enumerate(ops):
        exp = _expected(op, sanitize)
        status, got = wrgen.call(_read, r, op)
        if status == "exc" or type(got) is not type(exp) or got != exp:
            raise Violation("read_back:" + op[0], case, exp, got,
                            f"step {i} {op[0]}; " + _model_diag(case, data))
    status, tail = wrgen.call(lambda: [r.remaining, r.position])
    if status == "exc" or tail != [0, len(data)]:
        raise Violation("consumed_exactly", case, [0, len(data)], tail,
                        "[remaining, position] after the last read; " + _model_diag(case, data))
    if res is not None:
        _account(case, data, res)


def _account(case, data, res):
    ops = case["ops"]
    n = len(ops)
    str_ok = int_ok = False
    for op in ops:
        k = op[0]
        if k in STR_KINDS:
            if any(ord(ch) >= 0x80 for ch in op[1]) or (k in ("padded", "epadded") and len(op[1]) < op[2]):
                str_ok = True
        elif k in ("short", "three", "int") and wrgen.at_digit_boundary(op[1]):
            int_ok = True
        res.labels["op:" + k] += 1
    res.labels["writes:" + ("0" if n == 0 else "1-2" if n < 3 else "3-6" if n < 7 else "7-12")] += 1
    res.labels["sanitize:" + ("on" if case["sanitize"] else "off")] += 1
    if str_ok:
        res.labels["has:interesting_string"] += 1
    if int_ok:
        res.labels["has:boundary_int"] += 1
    if ops and ops[-1][0] in ("string", "estring"):
        res.labels["has:trailing_string"] += 1
    if n >= 3 and str_ok and int_ok:
        res.nontrivial(case)
        res.sample({"case": case, "output": data.hex()}, limit=2)


# -------------------------------------------------------------------------------------------
# generator

KIND_TABLE = ("char", "byte", "short", "three", "int", "bytes", "fixed", "padded", "efixed", "epadded",
              "string", "estring", "char", "short", "three", "int", "padded", "epadded", "string",
              "estring")
PAD_EXTRA = (0, 1, 1, 2, 3, 6)


def decode_op(bs):
    """One st.binary blob -> one write op (see wrgen.Bits)."""
    bits = wrgen.Bits(bs)
    k = bits.pick(KIND_TABLE)
    if k == "byte" or k in INT_KINDS:
        return [k, wrgen.in_range_int(bits, k)]
    if k == "bytes":
        n = bits.below(9)
        return [k, bytes(bits.pick((0x00, 0xFE, 0xFF)) if bits.below(4) == 0 else bits.below(256)
                         for _ in range(n)).hex()]
    if k == "fixed":
        return [k, wrgen.text(bits, 12)]
    if k == "padded":
        s = wrgen.text(bits, 10, "ÿ")
        return [k, s, len(s) + bits.pick(PAD_EXTRA)]
    if k == "efixed":
        return [k, wrgen.text(bits, 12, "~")]
    if k == "epadded":
        s = wrgen.text(bits, 10, "~ÿ")
        return [k, s, len(s) + bits.pick(PAD_EXTRA)]
    if k == "string":
        return [k, wrgen.text(bits, 16)]
    return [k, wrgen.text(bits, 16, "~")]


def case_strategy():
    def build(san, items):
        # a trailing string can only be the last write; elsewhere it becomes a fixed string
        last = len(items) - 1
        ops = []
        for i, op in enumerate(items):
            if i != last and op[0] in ("string", "estring"):
                op = ["fixed" if op[0] == "string" else "efixed", op[1]]
            ops.append(op)
        return {"sanitize": san, "ops": ops}

    return st.builds(build, st.sampled_from([False, False, True]),
                     st.lists(wrgen.blob().map(decode_op), min_size=0, max_size=12))


# -------------------------------------------------------------------------------------------
# runner API

def run_task(task):
    c = loader.core()
    res = TaskResult()

    def oracle(case):
        res.evaluations += 1
        check_case(c, case, res)

    if task.get("kind") == "long":
        # packet-sized and larger strings / byte blocks between integers: nothing in the statement
        # limits the size of a write
        try:
            for L in (253, 254, 255, 256, 64008, 64009, 64010, 70001):
                text = ("ab\u20acz\u00e9" * (L // 5 + 1))[:L]
                for ops in ([["short", 64008], ["fixed", text], ["int", 16194277], ["estring", text[::-1]]],
                            [["char", 252], ["padded", text[: L - 3], L], ["three", 64009], ["epadded", text[: L // 2], L], ["string", "end"]],
                            [["bytes", (bytes([1, 0xFE, 0xFF, 0]) * (L // 4 + 1))[:L].hex()], ["efixed", text], ["byte", 255]]):
                    if L >= 64008:
                        ops = ops + []      # (copy) plus: short texts in huge padded fields
                    for san in (False, True):
                        case = {"sanitize": san, "ops": ops}
                        res.evaluations += 1
                        check_case(c, case, None)
                        res.nontrivial(["long", L, san, [o[0] for o in ops]])
            # thousands of separate runs of characters without a windows-1252 image, hundreds of break characters
            for text in ("a\u0416" * 3000, "\u0434\u0430 \u043d\u0435\u0442 " * 1500, "\u65e5" * 5000, "\u00ff" * 300, "a\u00ff" * 400):
                for san in (False, True):
                    case = {"sanitize": san, "ops": [["char", 3], ["fixed", text], ["estring", text]]}
                    res.evaluations += 1
                    check_case(c, case, None)
                    res.nontrivial(["runs", len(text), san, text[:3]])
                    case = {"sanitize": san, "ops": [["efixed", text], ["short", 9], ["string", text]]}
                    res.evaluations += 1
                    check_case(c, case, None)
            for L in (300, 64009, 64010, 64012, 70001, 130000):
                for ops in ([["char", 1], ["padded", "ab", L], ["short", 300]],
                            [["epadded", "xyz", L], ["int", 5], ["padded", "", L], ["char", 9]]):
                    case = {"sanitize": False, "ops": ops}
                    res.evaluations += 1
                    check_case(c, case, None)
                    res.nontrivial(["hugepad", L, [o[0] for o in ops]])
        except Violation as v:
            res.violation(v)
        return res
    if hyp.campaign(case_strategy(), oracle, task["n"], task["seed"], res) is not None:
        wrgen.minimise_last_violation(res, in_domain, lambda case: check_case(c, case))
    return res


def plan(tier, seed):
    total = 20000 if tier == "quick" else 400000
    workers = 16
    return [{"n": total // workers, "seed": seed * 1000 + w} for w in range(workers)] + [{"kind": "long"}]


def finalize(merged, tier):
    nt = len(merged["nt_hashes"]) + merged["nt_count"]
    ev = max(1, merged["evaluations"])
    if merged["violations"]:
        return None
    if nt / ev < NT_FLOOR:
        merged["warnings"].append(f"non-trivial share {nt / ev:.3f} below the floor {NT_FLOOR}")
    if nt < 100 or nt / ev < NT_FLOOR / 4:
        return f"non-trivial cases {nt} of {ev} evaluations"
    return None


def replay(case):
    if not in_domain(case):
        return  # outside the property's domain: nothing is claimed
    check_case(loader.core(), case)
