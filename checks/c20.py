"""C20 - the public namespace resolves every documented name to the right object (DESIGN 5/C20)."""
import ast
import json
import os
import subprocess
import sys

from hypothesis import strategies as st

from vlib import gencase, genpkg, hyp, spec, specgen
from vlib.runner import REPO, VERIF, TaskResult, Violation

PROPERTY = "C20"
LEVEL = "exploration"
RULE = ("Hypothesis grammar-based generator of valid protocol.xml trees (type names become module and "
        "attribute names) x the first import statement of a FRESH interpreter, drawn from every static module "
        "path of src/eolib and from the generated module paths of the tree. After the first import and "
        "`import eolib`, evaluated inside the subprocess: (a) for every module path (static ones found by "
        "walking the source tree, generated ones derived from the tree) walking attributes from `eolib` along "
        "the dotted path yields exactly sys.modules[path]; (b) every public name a home subpackage defines "
        "(static: parsed with ast, honouring __all__; generated: the tree's declarations) is the same object "
        "in its defining module, in its home subpackage and in `eolib`. Non-trivial: tree with declarations in "
        ">= 3 directories; distinct by (xml, first import).")
ASSUMPTIONS = [
    "one interpreter (CPython 3.12.1); 'documented modules' = every module file under src/eolib plus the generated ones",
    "public names of a static module = its top-level classes, functions and assigned names without a leading "
    "underscore (restricted to __all__ where the module defines one)",
]
FEATURES = {}
PY = sys.executable
SRC = os.path.join(REPO, "src", "eolib")


def selftest():
    names = static_public_names()
    got = {(h, n) for (h, n, _) in names}
    for want in [("eolib.data", "EoReader"), ("eolib.data", "encode_number"), ("eolib.data", "CHAR_MAX"),
                 ("eolib.encrypt", "server_verification_hash"), ("eolib.packet", "PacketSequencer"),
                 ("eolib.packet", "SequenceStart"), ("eolib.protocol", "SerializationError"),
                 ("eolib.protocol.net", "Packet")]:
        assert want in got, want
    assert ("eolib.packet", "SimpleSequenceStart") not in got  # excluded by __all__


def static_modules():
    """Module paths defined by the static source tree (packages and modules)."""
    out = []
    for dirpath, dirnames, filenames in os.walk(SRC):
        dirnames[:] = sorted(d for d in dirnames if d not in ("__pycache__", "_generated"))
        rel = os.path.relpath(dirpath, SRC)
        pkg = "eolib" if rel == "." else "eolib." + rel.replace(os.sep, ".")
        if "__init__.py" not in filenames:
            continue
        out.append(pkg)
        for fn in sorted(filenames):
            if fn.endswith(".py") and fn != "__init__.py" and fn != "__about__.py":
                out.append(pkg + "." + fn[:-3])
    return out


# The hand-written public names documented at the pinned commit (docs/gen_ref_pages.py renders every module's
# public members). The set derived from the tree under test can only ADD to it: a change that hides one of
# these names (a new `__all__` that forgets a function, a re-export list that skips a constant) must not be
# able to remove the name from the oracle together with the object.
PINNED_PUBLIC_NAMES = (
    ("eolib.data", "CHAR_MAX"), ("eolib.data", "EoReader"), ("eolib.data", "EoWriter"), ("eolib.data", "INT_MAX"),
    ("eolib.data", "SHORT_MAX"), ("eolib.data", "THREE_MAX"), ("eolib.data", "decode_number"),
    ("eolib.data", "decode_string"), ("eolib.data", "encode_number"), ("eolib.data", "encode_string"),
    ("eolib.encrypt", "deinterleave"), ("eolib.encrypt", "flip_msb"), ("eolib.encrypt", "interleave"),
    ("eolib.encrypt", "server_verification_hash"), ("eolib.encrypt", "swap_multiples"),
    ("eolib.packet", "AccountReplySequenceStart"), ("eolib.packet", "InitSequenceStart"),
    ("eolib.packet", "PacketSequencer"), ("eolib.packet", "PingSequenceStart"), ("eolib.packet", "SequenceStart"),
    ("eolib.protocol", "ProtocolEnumMeta"), ("eolib.protocol", "SerializationError"),
    ("eolib.protocol.net", "Packet"),
)


def _public_defs(path, honour_all=True):
    tree = ast.parse(open(path, encoding="utf-8").read())
    names, all_ = [], None
    for node in tree.body:
        if isinstance(node, (ast.FunctionDef, ast.ClassDef, ast.AsyncFunctionDef)):
            names.append(node.name)
        elif isinstance(node, ast.Assign):
            for t in node.targets:
                if isinstance(t, ast.Name):
                    if t.id == "__all__":
                        all_ = [e.value for e in node.value.elts]
                    else:
                        names.append(t.id)
        elif isinstance(node, ast.AnnAssign) and isinstance(node.target, ast.Name) and node.value is not None:
            names.append(node.target.id)
    names = [n for n in names if not n.startswith("_")]
    if all_ is not None and honour_all:
        names = [n for n in names if n in all_]
    return names


def static_public_names():
    """[(home package, name, defining module)] for the static half."""
    out = []
    for dirpath, dirnames, filenames in os.walk(SRC):
        dirnames[:] = sorted(d for d in dirnames if d not in ("__pycache__", "_generated"))
        rel = os.path.relpath(dirpath, SRC)
        pkg = "eolib" if rel == "." else "eolib." + rel.replace(os.sep, ".")
        if "__init__.py" not in filenames or pkg == "eolib":
            continue
        for fn in sorted(filenames):
            # names defined in private modules (_helpers.py) are implementation details, not public names
            if fn.endswith(".py") and fn not in ("__init__.py", "__about__.py") and not fn.startswith("_"):
                for n in _public_defs(os.path.join(dirpath, fn)):
                    out.append((pkg, n, pkg + "." + fn[:-3]))
                hidden = set(_public_defs(os.path.join(dirpath, fn), honour_all=False))
                for n in sorted(hidden):
                    if (pkg, n) in PINNED_PUBLIC_NAMES and (pkg, n, pkg + "." + fn[:-3]) not in out:
                        out.append((pkg, n, pkg + "." + fn[:-3]))      # still defined, no longer exported
    have = {(h, n) for h, n, _ in out}
    for h, n in PINNED_PUBLIC_NAMES:
        if (h, n) not in have:
            out.append((h, n, h))       # no public module defines it any more: it must at least resolve from its home
    return out


def first_import_candidates(tree):
    c = list(static_modules())
    for d in spec.DIRS:
        c.append("eolib.protocol._generated" + ("." + d.replace("/", ".") if d else ""))
        for decl in tree["files"].get(d, []):
            c.append(spec.module_of(spec.decl_class_name(decl, d), d))
    return c


def request_for(tree, first):
    types, public = [], []
    mods = list(static_modules())
    for d in spec.DIRS:
        mods.append("eolib.protocol._generated" + ("." + d.replace("/", ".") if d else ""))
        for decl in tree["files"].get(d, []):
            name = spec.decl_class_name(decl, d)
            m = spec.module_of(name, d)
            mods.append(m)
            types.append({"name": name, "module": m, "public": spec.public_package_of(d)})
            public.append({"home": spec.public_package_of(d), "name": name, "defining": m})
    for home, name, defining in static_public_names():
        public.append({"home": home, "name": name, "defining": defining})
    return {"first_imports": [first], "types": types, "module_paths": mods, "public_names": public}


def check_case(case, res=None):
    tree = case["tree"]
    pkg = genpkg.Package(tree)
    try:
        if res is not None:
            res.evaluations += 1
        if pkg.error is not None:
            if res is not None:
                res.labels["generator_rejected(C18)"] += 1
            return
        cands = first_import_candidates(tree)
        ndirs = sum(1 for d in spec.DIRS if tree["files"].get(d))
        env = dict(os.environ, PYTHONHASHSEED="0", PYTHONDONTWRITEBYTECODE="1")
        env.pop("PYTHONPATH", None)
        firsts = []
        for f in case["firsts"]:
            m = cands[f % len(cands)]
            if m not in firsts:
                firsts.append(m)
        for nth, first in enumerate(firsts):
            req = request_for(tree, first)
            rp = os.path.join(pkg.root, "req.json")
            with open(rp, "w") as fh:
                json.dump(req, fh)
            where = pkg.root
            if nth == 1:
                # the same package deployed as a zip archive on sys.path (zipapp, zipped site-packages)
                import zipfile
                where = os.path.join(pkg.root, "bundle.zip")
                with zipfile.ZipFile(where, "w") as z:
                    top = os.path.join(pkg.root, "eolib")
                    for dirpath, dirnames, filenames in os.walk(top):
                        dirnames[:] = sorted(d for d in dirnames if d != "__pycache__")
                        for fn in sorted(filenames):
                            full = os.path.join(dirpath, fn)
                            z.write(full, os.path.relpath(full, pkg.root))
            r = subprocess.run([PY, "-B", os.path.join(VERIF, "vlib", "sub_import.py"), where, rp],
                               env=env, capture_output=True, text=True)
            try:
                jr = json.loads(r.stdout.strip().splitlines()[-1])
            except Exception:
                raise RuntimeError(f"sub_import failed: {r.stdout[-500:]} {r.stderr[-1500:]}")
            cj = {"tree": tree, "firsts": case["firsts"], "first_import": first, "xml": gencase.xml_of(tree)}
            if jr["import_error"]:
                raise Violation("import_succeeds", cj, "import eolib succeeds", jr["import_error"],
                                f"first import {first}" + (" (from a zip archive)" if where != pkg.root else ""))
            if jr["problems"]:
                p = jr["problems"][0]
                raise Violation("namespace:" + p[0] + ":" + str(p[1]).replace("eolib.protocol._generated", "G"),
                                cj, "no problems", jr["problems"][:6], f"first import {first}")
            if res is not None:
                res.labels["first:" + ("generated" if "_generated" in first else first)] += 1
                if where != pkg.root:
                    res.labels["imported_from_zip_archive"] += 1
                res.extra["module_paths_checked"] = res.extra.get("module_paths_checked", 0) + len(req["module_paths"])
                res.extra["public_names_checked"] = res.extra.get("public_names_checked", 0) + len(req["public_names"])
                if ndirs >= 3:
                    res.nontrivial([cj["xml"], first])
                    res.sample({"first_import": first, "module_paths": len(req["module_paths"]),
                                "public_names": len(req["public_names"]),
                                "types": [t["name"] for t in req["types"]][:8]}, limit=3)
    finally:
        pkg.close()


@st.composite
def cases(draw):
    tree = dict(draw(specgen.trees(features=FEATURES)))
    tree.pop("_excluded", None)
    k = 10 if specgen._TIER[0] == "thorough" else 4
    import hashlib
    raw = draw(st.lists(st.integers(0, 10 ** 6), min_size=k, max_size=k, unique=True))
    dig = hashlib.blake2b(json.dumps([raw, tree], sort_keys=True, default=str).encode(), digest_size=4 * k).digest()
    # (spread with a digest of the tree: Hypothesis favours a few values for such side inputs)
    return {"tree": tree, "firsts": [int.from_bytes(dig[4 * i:4 * i + 4], "big") % (10 ** 6) for i in range(k)]}


def run_task(task):
    from vlib import specgen as _sg
    _sg.set_tier(task.get("_tier"))
    res = TaskResult()
    try:
        hyp.campaign(cases(), lambda c: check_case(c, res), task["n"], task["seed"], res,
                     shrink_budget=task.get("shrink", 40))
    finally:
        genpkg.cleanup_tmpbase()
    return res


def plan(tier, seed):
    total = 400 if tier == "quick" else 2400
    W = 16
    return [{"n": total // W, "seed": seed * 1000 + w, "shrink": 40 if tier == "quick" else 300}
            for w in range(W)]


def replay(case):
    try:
        check_case(case, None)
    finally:
        genpkg.cleanup_tmpbase()
