"""C06 - chunk framing isolates chunks from over- and under-reads (DESIGN 5/C06).

A case is one JSON value
    {"chunks": [[field, ...], ...], "plans": [planA, planB]}
field  = ["char"|"short"|"three"|"int", v] | ["fixed", s] | ["efixed", s]
         | ["string", s] | ["estring", s]            (the last two only as a chunk's last field)
plan   = one entry [k, [surplus read, ...]] per chunk: read the chunk's first k fields with the
         matching get_* calls; if k == len(chunk) perform the surplus reads (which must all come
         back 0 / empty); then next_chunk().  Surplus reads are only drawn for k == len(chunk).
surplus read = ["byte"] ["bytes", n] ["char"] ["short"] ["three"] ["int"] ["string"] ["estring"]
               ["fixed", n, padded] ["efixed", n, padded]
All chunks are written by one EoWriter with string sanitisation ON, joined by add_byte(0xFF),
and read by two fresh EoReaders in chunked mode, one per plan.

Expected values come from what was written (strings: sanitised cp1252 image from the harness'
own table). An encoded string is compared at every position whose image byte is not 0x7E ('~' is
the one byte the EO string encoding does not carry; the length must still match). RefWriter is
only used for the detail text of a violation.
"""
from hypothesis import strategies as st

from vlib import hyp, loader, refcodec, refio, wrgen
from vlib.runner import TaskResult, Violation

PROPERTY = "C06"
LEVEL = "exploration"
RULE = (
    "Hypothesis draws one JSON case (every field and every pair of per-chunk plans is one drawn "
    "64-byte blob decoded through fixed tables): 1-6 chunks, each 0-6 typed fields (add_char/short/three/int in "
    "range with boundary bias incl. limit-1 and digits 0/252; exact-length plain and encoded strings; "
    "optionally one trailing add_string/add_encoded_string as the chunk's last field; strings are "
    "arbitrary Unicode from the biased alphabet with ÿ over-represented), written with sanitisation "
    "on and joined by add_byte(0xFF); plus two read plans, each per chunk (k fields to read in order, "
    "biased to k = all) + 0-4 surplus reads of drawn kinds when k = all, then next_chunk; plan B "
    "repeats plan A on a drawn subset of chunks. Non-trivial: within one plan there are an under-read "
    "chunk (k < number of fields) and an over-read chunk (all fields + >= 1 surplus read) that both "
    "come before a later chunk with >= 1 field that is read completely; distinct by the whole case."
)
EXHAUSTIVE = {}
ASSUMPTIONS = [
    "the harness' own windows-1252 table is the meaning of 'cp1252 image'; sanitisation maps "
    "ÿ (the only character whose image is 0xFF) to y",
    "integers are written with add_char/short/three/int only; the single raw add_byte(0xFF) per "
    "chunk boundary is the framing itself",
    "positions of an encoded string whose image byte is 0x7E ('~') are not compared (the EO string "
    "encoding cannot carry that byte; its behaviour belongs to C08)",
]
NT_FLOOR = 0.08

INT_KINDS = ("char", "short", "three", "int")
FIELD_STR = ("fixed", "efixed", "string", "estring")
SURPLUS_KINDS = ("byte", "bytes", "char", "short", "three", "int", "string", "estring", "fixed", "efixed")


def selftest():
    refcodec.selftest()
    refio.selftest()
    good = {
        "chunks": [[["char", 252], ["fixed", "aÿ~€"], ["int", 253 ** 4 - 1]],
                   [],
                   [["short", 64008], ["efixed", "ÿHello~\x81!"], ["estring", "~tail ÿ"]],
                   [["three", 253 ** 3 - 1], ["string", "ÿÿ"]]],
        "plans": [
            [[1, []], [0, [["int"], ["string"], ["fixed", 3, True]]], [3, [["short"], ["bytes", 4]]], [2, []]],
            [[3, [["char"], ["efixed", 2, False], ["byte"]]], [0, []], [2, []], [2, [["estring"]]]],
        ],
    }
    assert in_domain(good)
    assert _is_nontrivial(good)
    check_case(wrgen.fake_core(), good)
    assert not in_domain({"chunks": [[["string", "a"], ["char", 1]]], "plans": [[[0, []]], [[0, []]]]})
    assert not in_domain({"chunks": [[["char", 1]]], "plans": [[[0, [["int"]]]], [[0, []]]]})
    assert not in_domain({"chunks": [[["char", 253]]], "plans": [[[1, []]], [[1, []]]]})

    class NoSkip(wrgen.FakeReader):        # next_chunk from the current position
        def next_chunk(self):
            m = self._m
            m.chunk_start = m.pos = min(m.pos + 1, len(m.data)) if m.pos < len(m.data) else m.pos

    class Unsanitised(wrgen.FakeWriter):   # encoded strings not sanitised
        def add_fixed_encoded_string(self, s, n, padded=False):
            keep = self._m.sanitize
            self._m.sanitize = False
            try:
                super().add_fixed_encoded_string(s, n, padded)
            finally:
                self._m.sanitize = keep

    for bad in (wrgen.fake_core(reader=NoSkip), wrgen.fake_core(writer=Unsanitised)):
        try:
            check_case(bad, good)
        except Violation:
            continue
        raise AssertionError("oracle accepted a broken implementation")


# -------------------------------------------------------------------------------------------
# domain

def _str_ok(s):
    return isinstance(s, str) and not any(0xD800 <= ord(ch) <= 0xDFFF for ch in s)


def in_domain(case):
    try:
        chunks, plans = case["chunks"], case["plans"]
        if not 1 <= len(chunks) <= 6 or len(plans) != 2:
            return False
        if case.get("style") not in (None, "shared_view"):
            return False
        if case.get("header") not in (None, "same_writer", "other_writer"):
            return False
        win = case.get("window")
        if win is not None and not (isinstance(win, list) and len(win) == 3
                                    and all(type(x) is int and 0 <= x <= 64 for x in win)):
            return False
        for ch in chunks:
            if len(ch) > 6:
                return False
            for i, f in enumerate(ch):
                k = f[0]
                if k in INT_KINDS:
                    if type(f[1]) is not int or not 0 <= f[1] < refcodec.LIMITS[k]:
                        return False
                elif k in FIELD_STR:
                    if not _str_ok(f[1]):
                        return False
                    if k in ("string", "estring") and i != len(ch) - 1:
                        return False
                else:
                    return False
        for plan in plans:
            if len(plan) != len(chunks):
                return False
            for (k, surplus), ch in zip(plan, chunks):
                if type(k) is not int or not 0 <= k <= len(ch) or len(surplus) > 4:
                    return False
                if surplus and k != len(ch):
                    return False
                for s in surplus:
                    if s[0] not in SURPLUS_KINDS:
                        return False
                    if s[0] == "bytes" and not (type(s[1]) is int and s[1] >= 0):
                        return False
                    if s[0] in ("fixed", "efixed") and not (type(s[1]) is int and s[1] >= 0
                                                            and isinstance(s[2], bool)):
                        return False
        return True
    except (KeyError, IndexError, TypeError, ValueError):
        return False


# -------------------------------------------------------------------------------------------
# oracle

def _perfect_fit_padded(text):
    """Half of the fixed strings are written (and read) as padded fields that the text fills exactly:
    no padding byte is emitted, so they are as chunk-safe as plain fixed strings."""
    return (len(text) + sum(map(ord, text[:3]))) % 2 == 1


def _write_field(w, f):
    k = f[0]
    if k == "char":
        return w.add_char(f[1])
    if k == "short":
        return w.add_short(f[1])
    if k == "three":
        return w.add_three(f[1])
    if k == "int":
        return w.add_int(f[1])
    if k == "fixed":
        return w.add_fixed_string(f[1], len(f[1]), _perfect_fit_padded(f[1]))
    if k == "efixed":
        return w.add_fixed_encoded_string(f[1], len(f[1]), _perfect_fit_padded(f[1]))
    if k == "string":
        return w.add_string(f[1])
    if k == "estring":
        return w.add_encoded_string(f[1])
    raise KeyError(k)


def _read_field(r, f):
    k = f[0]
    if k == "char":
        return r.get_char()
    if k == "short":
        return r.get_short()
    if k == "three":
        return r.get_three()
    if k == "int":
        return r.get_int()
    if k == "fixed":
        return r.get_fixed_string(len(f[1]), _perfect_fit_padded(f[1]))
    if k == "efixed":
        return r.get_fixed_encoded_string(len(f[1]), _perfect_fit_padded(f[1]))
    if k == "string":
        return r.get_string()
    if k == "estring":
        return r.get_encoded_string()
    raise KeyError(k)


def _read_surplus(r, s):
    k = s[0]
    if k == "byte":
        return r.get_byte()
    if k == "bytes":
        buf = r.get_bytes(s[1])
        out = bytes(buf).hex()
        if isinstance(buf, bytearray):
            buf.extend(b"\xaa\xbb")     # the caller owns the returned array and may reuse it
        return out
    if k == "string":
        return r.get_string()
    if k == "estring":
        return r.get_encoded_string()
    if k == "fixed":
        return r.get_fixed_string(s[1], s[2])
    if k == "efixed":
        return r.get_fixed_encoded_string(s[1], s[2])
    return _read_field(r, [k])


def _surplus_expected(s):
    return 0 if s[0] in ("byte",) + INT_KINDS else ""


def _field_matches(f, got):
    """-> (ok, expected)"""
    k = f[0]
    if k in INT_KINDS:
        return type(got) is int and got == f[1], f[1]
    exp = wrgen.image(f[1], True)
    if not isinstance(got, str):
        return False, exp
    if k in ("fixed", "string"):
        return got == exp, exp
    # encoded: compare everywhere except where the image byte is 0x7E
    if len(got) != len(exp):
        return False, exp
    return all(e == "~" or e == g for e, g in zip(exp, got)), exp


def _write_all(w, chunks, on_chunk=None):
    w.string_sanitization_mode = True
    for i, ch in enumerate(chunks):
        if i:
            w.add_byte(0xFF)
        start = len(w)
        for j, f in enumerate(ch):
            _write_field(w, f)
        if on_chunk:
            on_chunk(i, start, len(w))


def _model_diag(case, data):
    m = refio.RefWriter()
    m.sanitize = True
    for i, ch in enumerate(case["chunks"]):
        if i:
            m.add_byte(0xFF)
        for f in ch:
            _write_field(m, f)
    return f"data={data.hex()} writer_output_equals_reference_model={bytes(m.data) == data}"


def check_case(c, case, res=None):
    chunks, plans = case["chunks"], case["plans"]
    w = c.data.EoWriter()
    spans = []
    hdr = case.get("header")
    if hdr:
        # an unchunked header in front of the chunked body (or an earlier message of another writer) carries the
        # same texts with sanitisation OFF: what was written raw before must not decide what is written now
        hw = w if hdr == "same_writer" else c.data.EoWriter()

        def _header():
            hw.string_sanitization_mode = False
            for ch in chunks:
                for f in ch:
                    if f[0] in FIELD_STR:
                        _write_field(hw, f)
        status, val = wrgen.call(_header)
        if status == "exc":
            raise Violation("write_accepted", case, "every in-domain write is accepted", val,
                            "while writing the unsanitised header")
    hlen = len(w)
    status, val = wrgen.call(_write_all, w, chunks, lambda i, a, b: spans.append((a - hlen, b - hlen)))
    if status == "exc":
        raise Violation("write_accepted", case, "every in-domain write is accepted", val,
                        f"while writing chunk {len(spans)}")
    status, data = wrgen.call(lambda: bytes(w.to_bytearray()))
    if status == "exc":
        raise Violation("to_bytearray", case, "bytes", data)
    data = data[hlen:]          # the chunked body; the header (if any) is read elsewhere
    # side oracle: no chunk's own bytes contain the break byte
    for i, (a, b) in enumerate(spans):
        if 0xFF in data[a:b]:
            raise Violation("chunk_bytes_break_free", case, "no ff", data[a:b].hex(),
                            f"chunk {i}; " + _model_diag(case, data))
    if data.count(0xFF) != len(chunks) - 1:
        raise Violation("chunk_bytes_break_free", case, len(chunks) - 1, data.count(0xFF),
                        "number of break bytes in the output; " + _model_diag(case, data))

    results = []
    for pi, plan in enumerate(plans):
        win = case.get("window")
        style = case.get("style")
        wrap = memoryview if style == "shared_view" else bytes
        if win:
            # the chunks arrive as a window into a larger receive buffer (slice of a reader over it)
            pre = bytes((0xFF if (i + win[2]) % 3 == 0 else 0x01) for i in range(win[0]))
            suf = bytes((0xFF if (i + win[2]) % 2 == 0 else 0x02) for i in range(win[1]))
            whole = wrap(pre + data + suf)
            status, r = wrgen.call(lambda: c.data.EoReader(whole).slice(len(pre), len(data)))
        else:
            whole = wrap(data)
            status, r = wrgen.call(c.data.EoReader, whole)
        if status == "exc":
            raise Violation("reader_constructed", case, "EoReader(data)", r)
        if style == "shared_view":
            # the caller's receive buffer is ONE memoryview object: another short-lived reader over the very
            # same object peeks at it and is dropped while the reader under observation carries on
            status, peek = wrgen.call(lambda: c.data.EoReader(whole).get_byte())
            if status == "exc":
                raise Violation("reader_constructed", case, "a second EoReader over the same memoryview", peek)
        status, err = wrgen.call(setattr, r, "chunked_reading_mode", True)
        if status == "exc":
            raise Violation("reader_constructed", case, "chunked reading mode can be switched on", err)
        per_chunk = []
        for ci, (ch, (k, surplus)) in enumerate(zip(chunks, plan)):
            vals = []
            where = f"plan {'AB'[pi]} chunk {ci}"
            for fi in range(k):
                f = ch[fi]
                status, got = wrgen.call(_read_field, r, f)
                ok, exp = (False, None) if status == "exc" else _field_matches(f, got)
                if not ok:
                    if exp is None:
                        exp = _field_matches(f, None)[1]
                    raise Violation("planned_read:" + f[0], case, exp, got,
                                    f"{where} field {fi}; " + _model_diag(case, data))
                vals.append(got)
            if k == len(ch):
                for si, s in enumerate(surplus):
                    status, got = wrgen.call(_read_surplus, r, s)
                    exp = _surplus_expected(s)
                    if status == "exc" or type(got) is not type(exp) or got != exp:
                        raise Violation("surplus_read", case, exp, got,
                                        f"{where} surplus read {si} {s}; " + _model_diag(case, data))
                    vals.append(got)
            status, got = wrgen.call(r.next_chunk)
            if status == "exc":
                raise Violation("next_chunk", case, "returns", got, where)
            per_chunk.append(vals)
        results.append(per_chunk)
    # non-interference, model-free: same per-chunk plan => same results, whatever happened elsewhere
    for ci in range(len(chunks)):
        if plans[0][ci] == plans[1][ci] and results[0][ci] != results[1][ci]:
            raise Violation("non_interference", case, results[0][ci], results[1][ci],
                            f"chunk {ci} read with the same plan after different histories; "
                            + _model_diag(case, data))
    if res is not None:
        _account(case, data, res)


def _plan_shape(chunks, plan):
    """per chunk: 'u' under-read, 'o' over-read, 'f' fully read (>=1 field, no surplus), '-' other"""
    out = []
    for ch, (k, surplus) in zip(chunks, plan):
        if k < len(ch):
            out.append("u")
        elif surplus:
            out.append("o")
        elif ch:
            out.append("f")
        else:
            out.append("-")
    return out


def _is_nontrivial(case):
    chunks = case["chunks"]
    if len(chunks) < 2:
        return False
    for plan in case["plans"]:
        shape = _plan_shape(chunks, plan)
        full = [len(ch) > 0 and k == len(ch) for ch, (k, _) in zip(chunks, plan)]
        for j in range(len(chunks) - 1, 0, -1):
            if full[j]:
                if "u" in shape[:j] and "o" in shape[:j]:
                    return True
                break  # an earlier j has a shorter prefix: cannot succeed either
    return False


def _account(case, data, res):
    chunks = case["chunks"]
    res.labels["chunks:%d" % len(chunks)] += 1
    for ch in chunks:
        for f in ch:
            res.labels["field:" + f[0]] += 1
            if f[0] in FIELD_STR and "ÿ" in f[1]:
                res.labels["field_with_y_diaeresis"] += 1
    for plan in case["plans"]:
        for sh in _plan_shape(chunks, plan):
            res.labels["chunk_plan:" + {"u": "under", "o": "over", "f": "full", "-": "empty"}[sh]] += 1
    if case.get("header"):
        res.labels["unsanitised_header:" + case["header"]] += 1
    same = sum(1 for a, b in zip(*case["plans"]) if a == b)
    res.labels["plans_equal_on_chunks:" + ("none" if same == 0 else "all" if same == len(chunks) else "some")] += 1
    if _is_nontrivial(case):
        res.nontrivial(case)
        res.sample({"case": case, "data": data.hex()}, limit=2)


# -------------------------------------------------------------------------------------------
# generator

FIELD_TABLE = ("char", "short", "three", "int", "fixed", "efixed", "string", "estring",
               "short", "three", "int", "fixed", "efixed")
SURPLUS_MENU = tuple(
    [[k] for k in ("byte", "char", "short", "three", "int", "string", "estring")] * 3
    + [["bytes", n] for n in (0, 1, 2, 3, 4, 9)]
    + [[k, n, p] for k in ("fixed", "efixed") for n in (0, 1, 2, 4, 9) for p in (False, True)])
LEAVE = (0, 0, 0, 0, 1, 2, 3, 6)       # how many fields a plan leaves unread (full reads dominate)
N_SURPLUS = (0, 1, 1, 2, 2, 3, 4)


def decode_field(bs):
    """One st.binary blob -> one written field (see wrgen.Bits)."""
    bits = wrgen.Bits(bs)
    k = bits.pick(FIELD_TABLE)
    if k in INT_KINDS:
        return [k, wrgen.in_range_int(bits, k)]
    return [k, wrgen.text(bits, 8 if k in ("fixed", "efixed") else 10, hot="ÿ")]


def _decode_plan(bits, n):
    k = max(0, n - bits.pick(LEAVE))
    ns = bits.pick(N_SURPLUS)
    surplus = [list(bits.pick(SURPLUS_MENU)) for _ in range(ns)]
    return [k, surplus if k == n else []]


def _chunk():
    def build(fields, plan_blob):
        last = len(fields) - 1
        out = []
        for i, f in enumerate(fields):
            if i != last and f[0] in ("string", "estring"):
                f = ["fixed" if f[0] == "string" else "efixed", f[1]]
            out.append(f)
        bits = wrgen.Bits(plan_blob)
        same = bits.below(2) == 1
        a = _decode_plan(bits, len(out))
        b = _decode_plan(bits, len(out))
        return out, a, (a if same else b)

    return st.builds(build, st.lists(wrgen.blob().map(decode_field), max_size=6), wrgen.blob())


def case_strategy():
    def build(cs, win, style):
        case = {"chunks": [c[0] for c in cs], "plans": [[c[1] for c in cs], [c[2] for c in cs]]}
        if win[0] or win[1]:
            case["window"] = list(win)
        if style:
            case["style"] = style
        return case

    window = st.one_of(st.just((0, 0, 0)), st.tuples(st.integers(0, 6), st.integers(0, 6), st.integers(0, 5)))
    style = st.sampled_from([None, None, None, None, "shared_view"])
    header = st.sampled_from([None, None, None, None, "same_writer", "same_writer", "other_writer"])

    def with_header(case, h):
        if h:
            case["header"] = h
        return case
    return st.builds(with_header, st.builds(build, st.lists(_chunk(), min_size=1, max_size=6), window, style), header)


LONG_LENGTHS = (250, 253, 255, 256, 1023, 1024, 4095, 4096, 4097, 8192, 64006, 64007, 64008, 64009, 64010, 65535, 65536, 70001)


def long_chunk_cases():
    """Deterministic cases with one very long chunk (a packet-sized or larger string field) followed by
    ordinary chunks: the framing must not depend on how long a chunk is."""
    out = []
    for L in LONG_LENGTHS:
        for kind, text in (("fixed", "a" * L), ("efixed", "b" * (L - 1) + "c"), ("string", "x\u00ff" * (L // 2))):
            for third, fourth in (([["int", 123456], ["fixed", "tail"]], [["three", 9]]),
                                  ([], [["three", 9], ["string", "end"]]),       # an empty chunk just before the last one
                                  ([["int", 123456]], [])):                      # the data ends with a break byte
                chunks = [[["short", 300]], [["char", 7], [kind, text]], third, fourth]
                full = [[len(ch), []] for ch in chunks]
                under = [[len(chunks[0]), [["int"]]], [1, []], [len(chunks[2]), [["short"], ["string"]]],
                         [min(1, len(chunks[3])), []]]
                for win in (None, [3, 4, 1]):
                    case = {"chunks": chunks, "plans": [full, under]}
                    if win:
                        case["window"] = win
                    out.append(case)
    return out


# -------------------------------------------------------------------------------------------
# runner API

def run_task(task):
    c = loader.core()
    res = TaskResult()

    def oracle(case):
        res.evaluations += 1
        check_case(c, case, res)

    if task.get("kind") == "long":
        try:
            for case in long_chunk_cases()[task["lo"]::task["step"]]:
                res.evaluations += 1
                res.labels["long_chunk_cases"] += 1
                check_case(c, case, None)
                res.nontrivial(["long", [len(f[1]) if isinstance(f[1], str) else f[1] for ch in case["chunks"] for f in ch], case.get("window")])
        except Violation as v:
            # keep the replay small: the case is regenerated from its index on replay
            res.violation(v)
        return res
    if hyp.campaign(case_strategy(), oracle, task["n"], task["seed"], res) is not None:
        wrgen.minimise_last_violation(res, in_domain, lambda case: check_case(c, case))
    return res


def plan(tier, seed):
    total = 20000 if tier == "quick" else 400000
    workers = 16
    return [{"n": total // workers, "seed": seed * 1000 + w} for w in range(workers)] + \
        [{"kind": "long", "lo": i, "step": 8} for i in range(8)]


def finalize(merged, tier):
    nt = len(merged["nt_hashes"]) + merged["nt_count"]
    ev = max(1, merged["evaluations"])
    if merged["violations"]:
        return None
    if nt / ev < NT_FLOOR:
        merged["warnings"].append(f"non-trivial share {nt / ev:.3f} below the floor {NT_FLOOR}")
    if nt < 100 or nt / ev < NT_FLOOR / 4:
        return f"non-trivial cases {nt} of {ev} evaluations"
    return None


def replay(case):
    if not in_domain(case):
        return  # outside the property's domain: nothing is claimed
    check_case(loader.core(), case)
