"""C13 - packet sequencer yields start + (n mod 10) under any update history (DESIGN 5/C13).

A history is a JSON value {"init": <start spec>, "ops": ["n" | ["s", <start spec>], ...]};
"n" asks for the next sequence number, ["s", spec] installs a new start. A start spec names a
public constructor and its arguments:
    ["zero"] | ["from_value", v] | ["from_init_values", s1, s2] | ["from_ping_values", s1, s2]
    | ["gen_init", k0, k1] | ["gen_ping", k0, k1] | ["gen_account", k0]
(gen_*: the class' generate() run under the scripted random source of vlib/rsource.py, the
j-th draw returning outcome k_j mod <size of the requested range>).
Two sequencers are fed the same history, interleaved step by step.
"""
import itertools

from hypothesis import strategies as st

from vlib import hyp, loader, rsource
from vlib.runner import HarnessError, TaskResult, Violation

PROPERTY = "C13"
LEVEL = "exploration"
DEPTH = {"quick": 10, "thorough": 13}
HYP_N = {"quick": 5120, "thorough": 100_000}
HYP_WORKERS = 16
MAX_STEPS = 60
PREFIX_LEN = 2     # exhaustive shards: one per (triple, first two ops)
NT_FLOOR = 0.40    # tuning target for the non-trivial share of the drawn histories

RULE = {
    t: (f"(1) exhaustive: every history of length {DEPTH[t]} (hence every shorter one, the oracle checks each "
        "step) over the alphabet {next, set(a), set(b)} for 4 triples (initial start, a, b) built through "
        "zero / from_value / from_init_values / from_ping_values / generate(), including 0, negative and "
        f"huge values; (2) {HYP_N[t]} Hypothesis-drawn histories of up to {MAX_STEPS} steps whose op list is "
        "drawn from a strategy (flat lists and run-length blocks of requests between updates; start values "
        "from boundary, small, protocol-range and unbounded integers) and interpreted by the oracle. "
        "Oracle: the n-th number returned (n from 0 over the whole history) == value of the start in force "
        "+ n mod 10, for two sequencers fed the same history in lockstep. Non-trivial: a history with >= 11 "
        "requests and >= 1 update strictly between two requests; drawn histories are counted distinct by "
        "value, enumerated ones are distinct by construction"
        + (" (none of the depth-10 histories reaches 11 requests; the non-trivial cases of this tier are "
           "drawn ones)." if t == "quick" else "."))
    for t in DEPTH
}
EXHAUSTIVE = {
    t: f"all 3^{DEPTH[t]} histories of length {DEPTH[t]} over {{next, set(a), set(b)}} for each of 4 fixed "
       "(initial, a, b) start triples; longer histories and other start values are sampled"
    for t in DEPTH
}
ASSUMPTIONS = [
    "the 'value of the start in force' is the `.value` the harness reads from the start object once, when "
    "it is constructed and before it is handed to the sequencer (the constructors themselves are C12's "
    "subject, not this property's)",
    "start objects are built through the public constructors only; generated starts use the scripted "
    "random source, so no history depends on an unseeded RNG",
]

# (initial, a, b) for the exhaustive part
TRIPLES = [
    (["zero"], ["from_value", 1756], ["from_init_values", 37, 100]),
    (["from_init_values", 2, 6], ["from_ping_values", 2007, 251], ["from_init_values", 1, 6]),   # b has value 0
    (["from_ping_values", 300, 7], ["gen_init", 1234, 5], ["gen_ping", 777, 100]),
    (["from_value", -5], ["from_value", 10 ** 12], ["gen_account", 7]),
]


# ----------------------------------------------------------------------------------------
# building starts through the public constructors

class _Real:
    """Adapter over the code under test."""

    def __init__(self, c):
        self.m = c.sequence_start
        self.Seq = c.packet.PacketSequencer
        self.SequenceStart = c.packet.SequenceStart

    def build(self, spec):
        m, k = self.m, spec[0]
        if k == "zero":
            return self.SequenceStart.zero()
        if k == "from_value":
            return m.AccountReplySequenceStart.from_value(spec[1])
        if k == "from_init_values":
            return m.InitSequenceStart.from_init_values(spec[1], spec[2])
        if k == "from_ping_values":
            return m.PingSequenceStart.from_ping_values(spec[1], spec[2])
        if k == "flaky":
            return _flaky_start(self.SequenceStart, spec[1])
        if k == "derived":
            # an application's own start class built on one of the library's (a start backed by session state):
            # what counts is its `value`, whatever the base class stored at construction
            base = [m.AccountReplySequenceStart, m.InitSequenceStart, m.PingSequenceStart][spec[2] % 3]
            live = spec[1]
            cls = type("SessionStart", (base,), {"value": property(lambda self_: self_._live)})
            obj = cls.__new__(cls)
            if base is m.AccountReplySequenceStart:
                base.__init__(obj, 7)
            else:
                base.__init__(obj, 7, 1, 6)
            obj._live = live
            return obj
        gen = {"gen_init": m.InitSequenceStart, "gen_ping": m.PingSequenceStart,
               "gen_account": m.AccountReplySequenceStart}.get(k)
        if gen is None:
            raise HarnessError(f"unknown start spec {spec!r}")
        picks = spec[1:]

        def chooser(pos, d):
            return (picks[pos] if pos < len(picks) else 0) % d.count
        with rsource.ScriptedRandom(rsource.random_module(m), chooser) as src:
            obj = gen.generate()
            if not src.trace:
                raise HarnessError(f"{k}: generate() made no observable draw; history would not be replayable")
        return obj


class _Unavailable(Exception):
    """Raised by a flaky start while the harness has switched it off."""


_flaky_cls = {}


def _flaky_start(base, value):
    """A SequenceStart whose value is temporarily unavailable while `broken` is set (a start that is
    computed lazily, fetched from elsewhere, ...). A request that fails must not count as a request."""
    cls = _flaky_cls.get(base)
    if cls is None:
        class Flaky(base):
            def __init__(self, v):
                self._v = v
                self.broken = False

            @property
            def value(self):
                if self.broken:
                    raise _Unavailable()
                return self._v
        cls = _flaky_cls[base] = Flaky
    return cls(value)


def _interpret(impl, case):
    """The oracle. Runs the history on two fresh sequencers; raises Violation at the first step
    that breaks the statement (the reported case is cut after that step).
    Returns (requests, updates, update_between_requests)."""
    ops = case["ops"]

    def cut(i):
        c = {"init": case["init"], "ops": ops[: i + 1]}
        if case.get("threads"):
            c["threads"] = True
        return c

    def call(fn, *a):
        """The call itself; with case["threads"] every call is made on a thread of its own, one after the other
        (a connection whose packets are sent by whichever pool thread is free): still one history."""
        if not case.get("threads"):
            return fn(*a)
        import threading
        box = []

        def run():
            try:
                box.append((True, fn(*a)))
            except BaseException as e:  # noqa: BLE001 - re-raised in the calling thread
                box.append((False, e))
        t = threading.Thread(target=run)
        t.start()
        t.join()
        ok, v = box[0]
        if ok:
            return v
        raise v

    sa, sb = impl.build(case["init"]), impl.build(case["init"])
    cur = sa.value
    in_force = (sa, sb)
    try:
        A, B = impl.Seq(sa), impl.Seq(sb)
    except Exception as e:  # noqa
        raise Violation("nth_equals_start_plus_n_mod_10", cut(-1), "a sequencer",
                        f"constructor raised {type(e).__name__}: {e}")
    n = 0
    updates = 0
    pending_update = False      # an update seen after at least one request
    between = False
    for i, op in enumerate(ops):
        if isinstance(op, list) and op[0] == "v":
            # the start in force changes its own value (a start backed by live session state); only
            # meaningful for the harness' own start class, otherwise the op is a no-op
            if hasattr(in_force[0], "broken"):
                for s_ in in_force:
                    s_._v = op[1]
                cur = op[1]
            continue
        if op == "nf" and hasattr(in_force[0], "broken"):
            # a request while the start in force cannot produce its value: either it fails (then it is
            # not a returned number and must not consume a slot) or it returns the right number
            exp = cur + n % 10
            for s_ in in_force:
                s_.broken = True
            outs = []
            for S in (A, B):
                try:
                    outs.append(("ok", call(S.next_sequence)))
                except _Unavailable:
                    outs.append(("unavailable", None))
                except Exception as e:  # noqa
                    outs.append(("exc", f"{type(e).__name__}: {e}"))
            for s_ in in_force:
                s_.broken = False
            if outs[0][0] == "exc" or outs[0] != outs[1]:
                raise Violation("nth_equals_start_plus_n_mod_10", cut(i), "fails cleanly or returns " + str(exp),
                                repr(outs), f"request n={n} while the start's value was unavailable")
            if outs[0][0] == "ok":
                if outs[0][1] != exp:
                    raise Violation("nth_equals_start_plus_n_mod_10", cut(i), exp, outs[0][1], f"request n={n}")
                n += 1
            continue
        if op == "nf":
            op = "n"
        if op == "n":
            exp = cur + n % 10
            try:
                ga = call(A.next_sequence)
                gb = call(B.next_sequence)
            except Exception as e:  # noqa
                raise Violation("nth_equals_start_plus_n_mod_10", cut(i), exp,
                                f"raised {type(e).__name__}: {e}", f"request n={n}")
            if ga != exp:
                raise Violation("nth_equals_start_plus_n_mod_10", cut(i), exp, ga,
                                f"request n={n}, start in force={cur}")
            if gb != ga:
                raise Violation("two_peers_lockstep", cut(i), ga, gb,
                                f"request n={n}: second sequencer fed the same history")
            if pending_update:
                between = True
            n += 1
        else:
            na, nb = impl.build(op[1]), impl.build(op[1])
            cur = na.value
            # ["sf", spec]: the update arrives while the OUTGOING start cannot produce its value; the update
            # concerns the new start only and must go through all the same
            outgoing = in_force if (op[0] == "sf" and hasattr(in_force[0], "broken")) else ()
            in_force = (na, nb)
            try:
                for s_ in outgoing:
                    s_.broken = True
                try:
                    call(A.set_sequence_start, na)
                    call(B.set_sequence_start, nb)
                finally:
                    for s_ in outgoing:
                        s_.broken = False
            except Exception as e:  # noqa
                raise Violation("nth_equals_start_plus_n_mod_10", cut(i), "update accepted",
                                f"raised {type(e).__name__}: {e}", f"after {n} requests")
            updates += 1
            if n > 0:
                pending_update = True
    return n, updates, between


# ----------------------------------------------------------------------------------------
# self test: the oracle accepts a correct model and rejects four wrong ones

class _ModelStart:
    def __init__(self, value):
        self.value = value


class _ModelImpl:
    def __init__(self, seq_cls):
        self.Seq = seq_cls

    def build(self, spec):
        k = spec[0]
        if k == "zero":
            return _ModelStart(0)
        if k == "from_value":
            return _ModelStart(spec[1])
        if k == "from_init_values":
            return _ModelStart(spec[1] * 7 + spec[2] - 13)
        if k == "from_ping_values":
            return _ModelStart(spec[1] - spec[2])
        return _ModelStart(sum(spec[1:]) % 240)


def _model_seq(variant):
    shared = {"c": 0}

    class S:
        def __init__(self, start):
            self.s = start
            self.c = 0
            shared["c"] = 0

        def next_sequence(self):
            if variant == "shared":
                r = self.s.value + shared["c"]
                shared["c"] = (shared["c"] + 1) % 10
                return r
            if variant == "preinc":
                self.c = (self.c + 1) % 10
                return self.s.value + self.c
            r = self.s.value + self.c
            self.c = (self.c + 1) % (9 if variant == "mod9" else 11 if variant == "mod11" else 10)
            return r

        def set_sequence_start(self, start):
            self.s = start
            if variant == "reset":
                self.c = 0
    return S


def selftest():
    ok = _ModelImpl(_model_seq("ok"))
    # the repository's two tests, as histories
    h1 = {"init": ["from_value", 123], "ops": ["n"] * 11}
    assert _interpret(ok, h1) == (11, 0, False)
    h2 = {"init": ["from_value", 100], "ops": ["n", ["s", ["from_value", 200]], "n"]}
    assert _interpret(ok, h2) == (2, 1, True)
    long = {"init": ["zero"], "ops": (["n"] * 7 + [["s", ["from_init_values", 37, 100]]]) * 6 + ["n"] * 5}
    assert _interpret(ok, long) == (47, 6, True)
    # expected numbers spelled out once, independently of _interpret
    s = _model_seq("ok")(_ModelStart(5))
    got = [s.next_sequence() for _ in range(12)]
    s.set_sequence_start(_ModelStart(1000))
    got += [s.next_sequence() for _ in range(3)]
    assert got == [5, 6, 7, 8, 9, 10, 11, 12, 13, 14, 5, 6, 1002, 1003, 1004], got
    for variant, hist, clause in (
            ("reset", h2, "nth_equals_start_plus_n_mod_10"),
            ("mod9", h1, "nth_equals_start_plus_n_mod_10"),
            ("mod11", h1, "nth_equals_start_plus_n_mod_10"),
            ("preinc", h2, "nth_equals_start_plus_n_mod_10"),
            ("shared", h2, "two_peers_lockstep")):
        try:
            _interpret(_ModelImpl(_model_seq(variant)), hist)
        except Violation as v:
            assert v.clause == clause, (variant, v.clause)
        else:
            raise AssertionError(f"oracle accepted the wrong model {variant!r}")
    # the fast enumeration loop and the interpreter agree on the count of non-trivial histories
    assert _count_nt(("n",) * 11 + ("a",)) is False and _count_nt(("n", "a") + ("n",) * 10) is True
    assert _count_nt(("a",) + ("n",) * 12) is False and _count_nt(("n",) * 10 + ("b", "n")) is True


# ----------------------------------------------------------------------------------------
# exhaustive part

def _count_nt(hist):
    """hist over 'n','a','b': >= 11 requests and an update strictly between two requests."""
    if hist.count("n") < 11:
        return False
    first = hist.index("n")
    last = len(hist) - 1 - hist[::-1].index("n")
    return any(x != "n" for x in hist[first:last])


def _minimise(impl, v, budget=300):
    """Bounded delta debugging of an enumerated counterexample: delete one step at a time and
    keep the deletion iff the same oracle clause still fails (at most `budget` re-runs)."""
    best = v
    changed = True
    while changed and budget > 0:
        changed = False
        ops = best.case["ops"]
        for i in range(len(ops)):
            if budget <= 0:
                break
            budget -= 1
            cand = {"init": best.case["init"], "ops": ops[:i] + ops[i + 1:]}
            try:
                _interpret(impl, cand)
            except Violation as w:
                if w.clause == best.clause:
                    best = w
                    changed = True
                    break
    return best


def _exhaustive(impl, task, res):
    init, a, b = TRIPLES[task["triple"]]
    depth = task["depth"]
    prefix = tuple(task["prefix"])
    spec = {"a": a, "b": b}
    # one immutable start object per symbol and per sequencer
    ia, ib = impl.build(init), impl.build(init)
    sa = {"a": impl.build(a), "b": impl.build(b)}
    sb = {"a": impl.build(a), "b": impl.build(b)}
    val = {"a": sa["a"].value, "b": sa["b"].value}
    v0 = ia.value
    Seq = impl.Seq
    nt = cnt = 0
    for tail in itertools.product("nab", repeat=depth - len(prefix)):
        hist = prefix + tail
        A, B = Seq(ia), Seq(ib)
        cur = v0
        n = 0
        bad = False
        try:
            for op in hist:
                if op == "n":
                    g = A.next_sequence()
                    if g != cur + n % 10 or B.next_sequence() != g:
                        bad = True
                        break
                    n += 1
                else:
                    A.set_sequence_start(sa[op])
                    B.set_sequence_start(sb[op])
                    cur = val[op]
        except Exception:  # noqa: re-run through the oracle below for the report
            bad = True
        cnt += 1
        if bad:
            case = {"init": init, "ops": ["n" if op == "n" else ["s", spec[op]] for op in hist]}
            res.evaluations += cnt
            res.nt_count += nt
            try:
                _interpret(impl, case)
            except Violation as v:
                raise _minimise(impl, v)
            raise HarnessError(f"enumeration loop and oracle disagree on {case!r}")
        if n >= 11 and _count_nt(hist):
            nt += 1
    res.evaluations += cnt
    res.nt_count += nt
    res.labels[f"exhaustive depth {depth} histories"] += cnt
    return cnt


# ----------------------------------------------------------------------------------------
# drawn histories

def _strategy():
    boundary = st.sampled_from([0, 1, 9, 10, 239, 240, 252, 253, 1756, 1757, 64008, 64009, -1, -10])
    ints = st.one_of(st.integers(0, 1756), boundary, st.integers(-300, 300), st.integers())
    small = st.integers(0, 252)
    spec = st.one_of(
        st.just(["zero"]),
        st.builds(lambda v: ["from_value", v], ints),
        st.builds(lambda x, y: ["from_init_values", x, y], st.one_of(small, ints), st.one_of(small, ints)),
        st.builds(lambda x, y: ["from_ping_values", x, y], st.one_of(st.integers(0, 64008), ints), st.one_of(small, ints)),
        st.builds(lambda x, y: ["gen_init", x, y], st.integers(0, 1756), st.integers(0, 40)),
        st.builds(lambda x, y: ["gen_ping", x, y], st.integers(0, 1756), st.integers(0, 252)),
        st.builds(lambda x: ["gen_account", x], st.integers(0, 239)),
        st.builds(lambda v: ["flaky", v], st.one_of(st.integers(0, 1756), boundary)),
        st.builds(lambda v, b: ["derived", v, b], st.one_of(st.integers(0, 1756), boundary), st.integers(0, 2)),
    )
    setop = st.builds(lambda s: ["s", s], spec)
    op = st.one_of(st.just("n"), st.just("n"), st.just("n"), setop, st.just("nf"), st.builds(lambda s: ["sf", s], spec),
                   st.builds(lambda v: ["v", v], st.integers(0, 1756)))
    flat = st.integers(0, MAX_STEPS).flatmap(lambda k: st.lists(op, min_size=k, max_size=MAX_STEPS))
    # run-length form: (optional update, then r requests), repeated
    block = st.tuples(st.one_of(st.none(), setop), st.integers(0, 14))
    blocks = st.lists(block, min_size=1, max_size=10).map(
        lambda bl: [o for u, r in bl for o in (([u] if u is not None else []) + ["n"] * r)][:MAX_STEPS])
    def build(i, ops, th):
        c = {"init": i, "ops": ops}
        if th:
            c["threads"] = True
        return c
    return st.builds(build, spec, st.one_of(flat, blocks), st.sampled_from([False] * 5 + [True]))


def _bucket(n):
    return "0-10" if n <= 10 else "11-20" if n <= 20 else "21-40" if n <= 40 else "41-60"


def run_task(task):
    c = loader.core()
    impl = _Real(c)
    res = TaskResult()
    try:
        if task["kind"] == "longrun":
            # "indefinitely": one sequencer is asked more than 253^3 + 25 times (any counter kept in an EO
            # three, a 24-bit or a 16-bit quantity has wrapped by then), with one update on the way
            total = task["total"]
            s0 = impl.build(["from_value", 7])
            S = impl.Seq(s0)
            cur = 7
            nxt = S.next_sequence
            half = total // 2
            i = 0
            for stop, newv in ((half, 1234), (total, None)):
                while i < stop:
                    got = nxt()
                    if got != cur + i % 10:
                        raise Violation("nth_equals_start_plus_n_mod_10", {"longrun": True, "request": i},
                                        cur + i % 10, got, f"request number {i} of a long run")
                    i += 1
                if newv is not None:
                    S.set_sequence_start(impl.build(["from_value", newv]))
                    cur = newv
            res.evaluations += 1
            res.extra["longrun_requests"] = total
            res.nontrivial(["longrun", total])
            return res
        if task["kind"] == "exh":
            res.shards_total = 1
            _exhaustive(impl, task, res)
            res.shards_done = 1
            if task["prefix"] == ["n", "a"]:
                init, a, b = TRIPLES[task["triple"]]
                res.sample({"exhaustive_triple": {"init": init, "a": a, "b": b,
                                                  "values": [impl.build(s).value for s in (init, a, b)]}}, limit=1)
        else:
            def oracle(case):
                res.evaluations += 1
                n, updates, between = _interpret(impl, case)
                res.extra["drawn_histories"] = res.extra.get("drawn_histories", 0) + 1
                res.labels["drawn: requests " + _bucket(n)] += 1
                res.labels["drawn: updates " + ("0" if updates == 0 else "1-3" if updates <= 3 else "4+")] += 1
                for op in case["ops"]:
                    if isinstance(op, list) and op[0] == "s":
                        res.labels["drawn: set via " + op[1][0]] += 1
                    elif op != "n":
                        res.labels["drawn: op " + (op if isinstance(op, str) else op[0])] += 1
                if n >= 11 and between:
                    res.nontrivial(case)
                    res.extra["drawn_nontrivial"] = res.extra.get("drawn_nontrivial", 0) + 1
                    if task["w"] == 0 and updates >= 2 and len(case["ops"]) <= 20:
                        res.sample(case, limit=1)
            hyp.campaign(_strategy(), oracle, task["n"], task["seed"], res)
    except Violation as v:
        res.violation(v)
    return res


def plan(tier, seed):
    tasks = []
    for t in range(len(TRIPLES)):
        for prefix in itertools.product("nab", repeat=PREFIX_LEN):
            tasks.append({"kind": "exh", "triple": t, "depth": DEPTH[tier], "prefix": list(prefix)})
    per = HYP_N[tier] // HYP_WORKERS
    for w in range(HYP_WORKERS):
        tasks.append({"kind": "hyp", "n": per, "seed": seed * 1000 + w, "w": w})
    tasks.insert(0, {"kind": "longrun", "total": 253 ** 3 + 25 if tier == "quick" else 2 ** 24 + 2 ** 16 + 25})
    if tier == "thorough":      # long tasks first
        tasks.sort(key=lambda t: t["kind"] != "hyp")
    return tasks


def finalize(m, tier):
    if m["violations"]:
        return None
    drawn = m["extra"].get("drawn_histories", 0)
    nt = m["extra"].get("drawn_nontrivial", 0)
    share = nt / drawn if drawn else 0.0
    m["extra"]["drawn_nontrivial_share"] = round(share, 3)
    if share < NT_FLOOR:
        m["warnings"].append(f"non-trivial share of drawn histories {share:.2f} is below the tuning floor {NT_FLOOR}")
    if drawn == 0 or share < NT_FLOOR / 4 or len(m["nt_hashes"]) < 100:
        return (f"{nt} of {drawn} drawn histories are non-trivial ({len(m['nt_hashes'])} distinct); "
                f"collapse threshold is a share of {NT_FLOOR / 4} and 100 distinct")
    return None


def replay(case):
    _interpret(_Real(loader.core()), case)
