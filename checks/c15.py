"""C15 - (de)serialization leaves reader and writer modes as it found them (DESIGN 5/C15)."""
import sys

from hypothesis import strategies as st

from vlib import gencase, genpkg, hyp, objedit, refcodec, refio, spec, specgen, valuegen
from vlib.refinterp import Huge, Interp, Invalid, Unspecified
from vlib.runner import TaskResult, Violation
from checks.c03 import mutate

PROPERTY = "C15"
LEVEL = "fault_enumeration"
RULE = ("Hypothesis grammar-based generator of protocol.xml trees fed to the real code generator; for up to 3 "
        "classes per tree x entry mode {off, on}: (a) serialize of valid objects and of objects made invalid by "
        "one declaration-violating edit, (b) deserialize of valid / truncated / corrupted / random bytes; each "
        "call is first run fault-free, then re-run with a writer/reader subclass that raises a private exception "
        "at its k-th public operation for drawn k in [0, number of operations of the fault-free run] (every "
        "failure point is eligible). Every generated serialize/deserialize - top level AND every nested struct / "
        "case-data class, wrapped at run time - must leave the mode exactly as it found it on return and on "
        "raise. Non-trivial: the call tree has a chunked section at depth >= 1 (nested struct or case) or nests "
        "chunked inside non-chunked (or the reverse), and the call raised part-way or entered with mode on; "
        "distinct by (xml, class, input, mode, fault index).")
ASSUMPTIONS = [
    "faults are injected at the public EoWriter/EoReader operations the generated code calls",
    "case-data classes lexically inside a <chunked> section are only entered in chunked mode (deserialize)",
]
FEATURES = {}


class _Fault(Exception):
    pass


class _FaultB(BaseException):
    """A cancellation-style fault (KeyboardInterrupt, GeneratorExit, asyncio.CancelledError are not
    Exceptions either): "whether the call returns or raises" covers these too."""


def selftest():
    refcodec.selftest()
    refio.selftest()


_sub = {}

W_OPS = ("add_byte", "add_bytes", "add_char", "add_short", "add_three", "add_int", "add_string",
         "add_fixed_string", "add_encoded_string", "add_fixed_encoded_string")
R_OPS = ("get_byte", "get_bytes", "get_char", "get_short", "get_three", "get_int", "get_string",
         "get_fixed_string", "get_encoded_string", "get_fixed_encoded_string", "next_chunk")


def _faulty(base, ops, tag):
    key = (base, tag)
    if key in _sub:
        return _sub[key]

    class Faulty(base):
        _ops = 0
        _fail_at = -1
        _fault_cls = _Fault

        def _tick(self):
            if self._ops == self._fail_at:
                self._ops += 1
                raise self._fault_cls()
            self._ops += 1

    for name in ops:
        def mk(name):
            orig = getattr(base, name)

            def f(self, *a, **kw):
                self._tick()
                return orig(self, *a, **kw)
            f.__name__ = name
            return f
        setattr(Faulty, name, mk(name))
    _sub[key] = Faulty
    return Faulty


class Watch:
    """Wraps serialize/deserialize of every generated class of a session and records mode leaks."""

    def __init__(self, s):
        self.s = s
        self.leaks = []
        self.trace = []
        self.calls = 0
        self.depth = 0
        self.max_depth = 0
        self.saved = []
        for c in s.an.classes():
            cls = s.cls(c)
            name = ".".join(c["path"])
            self.saved.append((cls, cls.__dict__["serialize"], cls.__dict__["deserialize"]))
            cls.serialize = staticmethod(self._wrap(cls.__dict__["serialize"].__func__, name, "serialize",
                                                    lambda o: o.string_sanitization_mode))
            cls.deserialize = staticmethod(self._wrap(cls.__dict__["deserialize"].__func__, name, "deserialize",
                                                      lambda o: o.chunked_reading_mode))

    def _wrap(self, orig, name, what, getmode):
        watch = self

        def f(*a):
            io = a[0]
            entry = getmode(io)
            watch.trace.append((name.split(".")[-1], bool(entry)))
            watch.calls += 1
            watch.depth += 1
            watch.max_depth = max(watch.max_depth, watch.depth)
            outcome = "return"
            try:
                return orig(*a)
            except BaseException:
                outcome = "raise"
                raise
            finally:
                watch.depth -= 1
                exit_ = getmode(io)
                if exit_ is not entry and exit_ != entry:
                    watch.leaks.append((name, what, entry, exit_, outcome))
        return f

    def restore(self):
        for cls, ser, de in self.saved:
            cls.serialize = ser
            cls.deserialize = de


def _has_nested_chunk(an, c):
    """chunked section below the top level of the call tree, or chunked nested in non-chunked."""
    def body_has_chunk(body):
        return any(i["tag"] == "chunked" for i in spec.Analysis.flatten(body))

    def nested(body, depth):
        for i in spec.Analysis.flatten(body):
            if i["tag"] in ("field", "array"):
                r = an.resolve(i["type"])
                if r["kind"] == "struct":
                    if body_has_chunk(r["decl"]["body"]) or nested(r["decl"]["body"], depth + 1):
                        return True
            if i["tag"] == "switch":
                for cs in i["cases"]:
                    if body_has_chunk(cs["body"]):
                        return True
        return False
    return nested(c["body"], 0)


def check_case(case, res=None):
    tree = case["tree"]
    with gencase.Session(tree) as s:
        if res is not None:
            res.evaluations += 1
        if not s.usable:
            if res is not None:
                res.labels["generator_or_import_failed(C18)"] += 1
            return
        an = s.an
        FW = _faulty(sys.modules["eolib.data.eo_writer"].EoWriter, W_OPS, "w")
        FR = _faulty(sys.modules["eolib.data.eo_reader"].EoReader, R_OPS, "r")
        watch = Watch(s)
        try:
            for it in case["items"]:
                c = gencase.find_class(an, it["cls"])
                cls = s.cls(c)
                nested = _has_nested_chunk(an, c)
                xml = gencase.xml_of(tree)
                for call in it["calls"]:
                    mode = call["mode"]
                    cj = {"tree": tree, "xml": xml, "items": [{"cls": it["cls"], "dir": it["dir"], "calls": [call]}]}
                    if call["kind"] == "ser":
                        obj = valuegen.from_json(call["obj"])
                        try:
                            inst = s.builder.build(cls, c["body"], obj)
                        except Exception:  # noqa
                            if res is not None:
                                res.labels["skip:ctor"] += 1
                            continue

                        def run(fail_at):
                            w = FW()
                            w.string_sanitization_mode = mode
                            w._ops, w._fail_at = 0, fail_at
                            w._fault_cls = _FaultB if fail_at % 2 else _Fault
                            watch.leaks.clear()
                            watch.trace.clear()
                            raised = None
                            try:
                                cls.serialize(w, inst)
                            except (Exception, _FaultB) as e:  # noqa
                                raised = type(e).__name__
                            return w, raised, w.string_sanitization_mode
                    else:
                        data = bytes.fromhex(call["hex"])
                        if c["lex"] and not mode:
                            continue
                        try:
                            Interp(an).deserialize(c["body"], data, c["lex"], mode)
                        except (Huge, Unspecified):
                            if res is not None:
                                res.labels["skip:huge"] += 1
                            continue

                        def run(fail_at):
                            r = FR(data)
                            if mode:
                                r.chunked_reading_mode = True
                            r._ops, r._fail_at = 0, fail_at
                            r._fault_cls = _FaultB if fail_at % 2 else _Fault
                            watch.leaks.clear()
                            watch.trace.clear()
                            raised = None
                            try:
                                cls.deserialize(r)
                            except (Exception, _FaultB) as e:  # noqa
                                raised = type(e).__name__
                            return r, raised, r.chunked_reading_mode
                    io, raised0, final = run(-1)
                    nops = io._ops
                    # the "consequently" clause: every nested structure is entered in exactly the mode the
                    # specification prescribes at that point (reference interpreter), fault-free run
                    ip = Interp(an)
                    ref_trace = None
                    ref_bytes = None
                    try:
                        if call["kind"] == "ser":
                            ref_bytes = ip.serialize(c["body"], valuegen.from_json(call["obj"]), c["lex"], mode, label=it["cls"][-1])
                            ref_trace = ip.trace
                        elif ip.deserialize(c["body"], bytes.fromhex(call["hex"]), c["lex"], mode, label=it["cls"][-1])[0] == "ok":
                            ref_trace = ip.trace
                    except (Invalid, Unspecified, Huge):
                        ref_trace = None
                    if ref_trace is not None and raised0 is None and list(watch.trace) != ref_trace:
                        first = next((i for i, (a, b) in enumerate(zip(watch.trace, ref_trace)) if a != b),
                                     min(len(watch.trace), len(ref_trace)))
                        raise Violation(f"nested_calls_entered_in_prescribed_mode:{call['kind']}", dict(cj, fault_at=-1),
                                        ref_trace[first:first + 3], list(watch.trace)[first:first + 3],
                                        f"call #{first} of the call tree (class, mode at entry)")
                    if ref_bytes is not None and raised0 is None and bytes(io.to_bytearray()) != bytes(ref_bytes):
                        # "never sanitised as chunked unless it says so, and vice versa": what is written under this
                        # entry mode is what the specification prescribes (break bytes and y-diaeresis included)
                        raise Violation("sanitised_as_prescribed:ser", dict(cj, fault_at=-1), bytes(ref_bytes).hex(),
                                        bytes(io.to_bytearray()).hex(), f"entry mode {mode}")
                    if ref_trace is not None and res is not None:
                        res.labels["call_trees_compared"] += 1
                    faults = [-1] + sorted({f % (nops + 1) for f in call["faults"]})
                    for k in faults:
                        if k != -1:
                            io, raised, final = run(k)
                        else:
                            raised = raised0
                        cjk = dict(cj, fault_at=k)
                        if watch.leaks:
                            name, what, entry, exit_, outcome = watch.leaks[0]
                            raise Violation(f"mode_restored_by_every_call:{what}:{outcome}", cjk, entry, exit_,
                                            f"{name}.{what} entered with mode {entry}, left it {exit_} on {outcome}"
                                            f" (fault at op {k}, raised {raised})")
                        if final is not mode and final != mode:
                            raise Violation(f"top_level_mode_restored:{call['kind']}", cjk, mode, final,
                                            f"fault at op {k}, raised {raised}")
                        if res is not None:
                            res.labels[f"{call['kind']}:{'raise' if raised else 'return'}"] += 1
                            res.extra["calls_observed"] = res.extra.get("calls_observed", 0) + watch.calls
                            watch.calls = 0
                            if nested and (raised or mode):
                                res.nontrivial([xml, it["cls"], call.get("obj") or call.get("hex"), mode, k])
                                res.sample({"class": ".".join(it["cls"]), "kind": call["kind"], "mode": mode,
                                            "fault_at": k, "of_ops": nops, "raised": raised,
                                            "input": call.get("obj") or call.get("hex")}, limit=4)
        finally:
            watch.restore()


@st.composite
def cases(draw, n_classes=3):
    tree = dict(draw(specgen.trees(features=FEATURES)))
    tree.pop("_excluded", None)
    an = spec.Analysis(tree)
    classes = an.classes()
    items = []
    if classes:
        k = min(len(classes), n_classes)
        # prefer classes whose call tree has chunked sections
        idxs = gencase.pick_classes(draw, an, classes, k)
        vg = valuegen.ValueGen(an, big_lengths=False)
        pick = lambda seq: draw(st.sampled_from(list(seq)))  # noqa
        faults = st.lists(st.integers(0, 10 ** 6), min_size=2, max_size=3, unique=True)
        for i in idxs:
            c = classes[i]
            calls = []
            obj = vg.body(draw, c["body"])
            calls.append({"kind": "ser", "obj": valuegen.to_json(obj), "mode": draw(st.booleans()), "faults": draw(faults)})
            r = objedit.apply(an, c["body"], obj, pick, lambda b: vg.body(draw, b))
            if r is not None:
                calls.append({"kind": "ser", "obj": valuegen.to_json(r[0]), "mode": draw(st.booleans()),
                              "faults": draw(faults), "edit": r[1]})
            try:
                seed_bytes = Interp(an).serialize(c["body"], obj, c["lex"], draw(st.booleans()))
            except (Invalid, Unspecified):
                seed_bytes = b""
            for _ in range(2):
                kind, data = draw(mutate(seed_bytes))
                calls.append({"kind": "de", "hex": data.hex(), "mode": draw(st.booleans()), "faults": draw(faults),
                              "input_kind": kind})
            # fault positions: spread the drawn numbers (Hypothesis favours 0, 1 and repeats) with a digest of the call
            import hashlib
            import json
            for call in calls:
                dig = hashlib.blake2b(json.dumps([call.get("obj"), call.get("hex"), call["faults"], c["path"]],
                                                 sort_keys=True, default=str).encode(), digest_size=12).digest()
                call["faults"] = [int.from_bytes(dig[4 * j:4 * j + 4], "big") % (10 ** 6) for j in range(len(call["faults"]))]
            items.append({"cls": c["path"], "dir": c["dir"], "calls": calls})
    return {"tree": tree, "items": items}


def run_task(task):
    from vlib import specgen as _sg
    _sg.set_tier(task.get("_tier"))
    res = TaskResult()
    try:
        hyp.campaign(cases(), lambda c: check_case(c, res), task["n"], task["seed"], res,
                     shrink_budget=task.get("shrink", 150))
    finally:
        genpkg.cleanup_tmpbase()
    return res


def plan(tier, seed):
    total = 3200 if tier == "quick" else 25000
    W = 16
    return [{"n": total // W, "seed": seed * 1000 + w, "shrink": 150 if tier == "quick" else 1500}
            for w in range(W)]


def finalize(m, tier):
    n = sum(v for k, v in m["labels"].items() if k.endswith(":raise") or k.endswith(":return"))
    if n < 1000:
        return f"only {n} calls observed"
    return None


def replay(case):
    try:
        check_case(case, None)
    finally:
        genpkg.cleanup_tmpbase()
