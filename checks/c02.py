"""C02 - generated serializers emit exactly the wire format the XML prescribes (DESIGN 5/C02)."""
import copy

from hypothesis import strategies as st

from vlib import gencase, genpkg, hyp, refcodec, refio, spec, valuegen
from vlib.refinterp import Interp, Invalid, Unspecified
from vlib.runner import TaskResult, Violation

PROPERTY = "C02"
LEVEL = "exploration"
RULE = ("Hypothesis grammar-based generator of whole protocol.xml trees (wild profile: enums, structs, "
        "packets, nested switches/chunked sections, length fields with offsets, delimited arrays, "
        "hardcoded/dummy members, underlying-type overrides, cross-file references) fed to the real "
        "code generator; for up to 3 classes per tree, 3 constructible objects each (strings with "
        "unencodable/0xFF characters, unknown enum ordinals) x entry sanitise mode; bytes compared with "
        "an independent reference interpreter of the XML; packets: write()/family()/action(); "
        "metamorphic: a copy of the tree with boolean defaults spelled explicitly must generate the same "
        "code / bytes. Non-trivial: object accepted by the reference AND the expected bytes exercise >= 2 "
        "of {length offset, hardcoded, dummy, break, delimiter, padding, sanitised y-diaeresis, case "
        "body, underlying override, unnamed field}; distinct by (xml, class, object, mode).")
ASSUMPTIONS = [
    "the reference interpreter (vlib/refinterp.py) is the eo-protocol semantics; where the docs are "
    "silent it follows the unchanged tree (DESIGN 3.4 lists those points)",
    "degenerate specifications listed in DESIGN 4.1 are not generated",
]
NT_EVENTS = {"len_offset", "hardcoded", "dummy", "break", "delimiter", "padding", "sanitized",
             "case_body", "override", "unnamed"}
FEATURES = {}


def selftest():
    refcodec.selftest()
    refio.selftest()


BOOL_DEFAULTS = {"field": [("optional", False), ("padded", False)],
                 "array": [("optional", False), ("delimited", False), ("trailing", True)],
                 "length": [("optional", False)]}


def _prefix(oj):
    """Bytes already in the writer, derived from the object itself so that a replay uses the same."""
    from vlib.runner import h64
    return (b"", b"\x01", b"", b"\xfe\x41", b"\x05\x06\x07")[h64(oj) % 5]


def explicit_defaults(tree, picks):
    """Copy of tree with boolean defaults spelled out at the locations selected by `picks`
    (an iterator of booleans, consumed in document order)."""
    t = copy.deepcopy(tree)
    n = [0]

    def visit(body, lex):
        for ins in body:
            tag = ins["tag"]
            for attr, dv in BOOL_DEFAULTS.get(tag, []):
                if attr in ins:
                    continue
                if attr == "padded" and spec.Analysis(t).resolve(ins["type"])["kind"] != "string":
                    continue
                if attr == "optional" and tag == "field" and ins.get("name") is None:
                    continue
                if attr == "trailing" and not ins.get("delimited"):
                    continue
                if next(picks, False):
                    ins[attr] = dv
                    n[0] += 1
            if tag == "chunked":
                visit(ins["body"], True)
            elif tag == "switch":
                for c in ins["cases"]:
                    if "default" not in c and next(picks, False):
                        c["default"] = False
                        n[0] += 1
                    visit(c["body"], lex)

    for d in spec.DIRS:
        for decl in t["files"].get(d, []):
            if decl["kind"] != "enum":
                visit(decl["body"], False)
    return t, n[0]


def check_case(case, res=None):
    tree = case["tree"]
    with gencase.Session(tree) as s:
        if res is not None:
            res.evaluations += 1
        if not s.usable:
            if res is not None:
                res.labels["generator_or_import_failed(C18)"] += 1
            return
        feats = spec.tree_features(tree)
        if res is not None:
            for f in feats:
                res.labels["tree:" + f] += 1
        an = s.an
        expected = {}
        for it in case["items"]:
            c = gencase.find_class(an, it["cls"])
            cls = s.cls(c)
            for oi, oj in enumerate(it["objs"]):
                obj = valuegen.from_json(oj)
                ip = Interp(an)
                # the writer may already hold data (a packet header, earlier structures): every other object is
                # serialised into a writer that is not empty
                prefix = _prefix(oj)
                try:
                    exp = ip.serialize(c["body"], obj, c["lex"], it["mode"], prefix=prefix)
                except Invalid:
                    if res is not None:
                        res.labels["obj:ref_invalid(C16)"] += 1
                    continue
                except Unspecified:
                    if res is not None:
                        res.labels["obj:unspecified"] += 1
                    continue
                cj = {"tree": tree, "items": [{"cls": it["cls"], "dir": it["dir"], "objs": [oj], "mode": it["mode"]}],
                      "xml": gencase.xml_of(tree)}
                try:
                    inst = s.builder.build(cls, c["body"], obj)
                except Exception as e:  # constructor refuses: not a constructible object
                    if res is not None:
                        res.labels[f"obj:ctor_raised_{type(e).__name__}"] += 1
                    continue
                w = s.writer(it["mode"])
                w.add_bytes(prefix)
                try:
                    cls.serialize(w, inst)
                except Exception as e:
                    raise Violation("serialize_raised_on_valid_object", cj, exp.hex(),
                                    f"{type(e).__name__}: {e}")
                got = bytes(w.to_bytearray())
                if got != exp:
                    raise Violation("bytes_match_reference", cj, exp.hex(), got.hex(), f"class {'.'.join(it['cls'])}")
                expected[(tuple(it["cls"]), oi)] = exp
                if len(it["cls"]) == 1 and c["decl"]["kind"] == "packet":
                    w2 = s.writer(it["mode"])
                    w2.add_bytes(prefix)
                    inst.write(w2)
                    if bytes(w2.to_bytearray()) != exp:
                        raise Violation("packet_write_matches_serialize", cj, exp.hex(), bytes(w2.to_bytearray()).hex())
                    fam_cls, act_cls = s.pkg.enum("PacketFamily"), s.pkg.enum("PacketAction")
                    fd = next(v for v in an.types["PacketFamily"][0]["values"] if v["name"] == c["decl"]["family"])
                    ad = next(v for v in an.types["PacketAction"][0]["values"] if v["name"] == c["decl"]["action"])
                    fam, act = cls.family(), cls.action()
                    pyname = lambda n: "None_" if n == "None" else n  # noqa
                    if fam is not getattr(fam_cls, pyname(fd["name"])) or int(fam) != fd["ord"]:
                        raise Violation("packet_family", cj, f"PacketFamily.{fd['name']}={fd['ord']}", repr(fam))
                    if act is not getattr(act_cls, pyname(ad["name"])) or int(act) != ad["ord"]:
                        raise Violation("packet_action", cj, f"PacketAction.{ad['name']}={ad['ord']}", repr(act))
                    if res is not None:
                        res.labels["obj:packet"] += 1
                if res is not None:
                    res.labels["obj:compared"] += 1
                    ev = ip.events & NT_EVENTS
                    for e in ip.events:
                        res.labels["ev:" + e] += 1
                    if len(ev) >= 2:
                        res.nontrivial([gencase.xml_of(tree), it["cls"], oj, it["mode"]])
                        res.sample({"class": ".".join(it["cls"]), "object": oj, "sanitize": it["mode"],
                                    "bytes": exp.hex(), "events": sorted(ip.events),
                                    "xml": next(iter(gencase.xml_of(tree).values()))[:600]}, limit=3)
        base_files = s.pkg.generated_files() if case.get("picks") else None
    # metamorphic: explicit defaults
    if case.get("picks"):
        t2, n = explicit_defaults(tree, iter(case["picks"]))
        if n == 0:
            return
        cj = {"tree": tree, "items": [], "picks": case["picks"], "xml": gencase.xml_of(tree),
              "xml_explicit": gencase.xml_of(t2)}
        with gencase.Session(t2) as s2:
            if s2.error is not None:
                raise Violation("explicit_defaults_accepted", cj, "accepted", f"{type(s2.error).__name__}: {s2.error}")
            if res is not None:
                res.labels["metamorphic:pairs"] += 1
            files2 = s2.pkg.generated_files()
            if files2 == base_files:
                return
            if not s2.usable:
                raise Violation("explicit_defaults_importable", cj, "importable", repr(s2.import_error))
            an2 = s2.an
            for it in case["items"]:
                c2 = gencase.find_class(an2, it["cls"])
                cls2 = s2.cls(c2)
                for oi, oj in enumerate(it["objs"]):
                    exp = expected.get((tuple(it["cls"]), oi))
                    if exp is None:
                        continue
                    obj = valuegen.from_json(oj)
                    inst = s2.builder.build(cls2, c2["body"], obj)
                    w = s2.writer(it["mode"])
                    w.add_bytes(_prefix(oj))
                    try:
                        cls2.serialize(w, inst)
                        got = bytes(w.to_bytearray()).hex()
                    except Exception as e:  # noqa
                        got = f"{type(e).__name__}: {e}"
                    if got != exp.hex():
                        cj2 = dict(cj, items=[{"cls": it["cls"], "dir": it["dir"], "objs": [oj], "mode": it["mode"]}])
                        raise Violation("explicit_defaults_same_bytes", cj2, exp.hex(), got)
            # sources differ but behaviour did not on the drawn objects: flag the difference itself
            diff = sorted(k for k in set(files2) | set(base_files) if files2.get(k) != base_files.get(k))
            raise Violation("explicit_defaults_same_code", cj, "identical generated sources", f"differs: {diff[:4]}")


@st.composite
def cases(draw):
    c = draw(gencase.tree_and_items(features=FEATURES))
    if draw(st.integers(0, 4)) == 0:
        c["picks"] = draw(st.lists(st.booleans(), min_size=4, max_size=40))
    return c


def run_task(task):
    from vlib import specgen as _sg
    _sg.set_tier(task.get("_tier"))
    res = TaskResult()
    try:
        hyp.campaign(cases(), lambda c: check_case(c, res), task["n"], task["seed"], res,
                     shrink_budget=task.get("shrink", 150))
    finally:
        genpkg.cleanup_tmpbase()
    return res


def plan(tier, seed):
    total = 4800 if tier == "quick" else 40000
    W = 16
    return [{"n": total // W, "seed": seed * 1000 + w, "shrink": 150 if tier == "quick" else 1500}
            for w in range(W)]


def finalize(m, tier):
    ev = m["evaluations"]
    compared = m["labels"].get("obj:compared", 0)
    if ev and m["labels"].get("generator_or_import_failed(C18)", 0) > 0.5 * ev:
        return "more than half of the generated trees were rejected or not importable"
    if compared < 100:
        return f"only {compared} objects compared"
    return None


def replay(case):
    try:
        check_case(case, None)
    finally:
        genpkg.cleanup_tmpbase()
