"""C19 - generated protocol objects are immutable snapshots (DESIGN 5/C19)."""
from hypothesis import strategies as st

from vlib import gencase, genpkg, hyp, refcodec, refio, spec, valuegen
from vlib.refinterp import Huge, Interp, Invalid, Unspecified
from vlib.runner import TaskResult, Violation

PROPERTY = "C19"
LEVEL = "exploration"
RULE = ("Hypothesis grammar-based generator of protocol.xml trees fed to the real code generator; for up to 3 "
        "classes per tree (structs, packets, case-data classes), instances obtained by construction (array "
        "arguments passed as lists and as one-shot generators) and by deserialising their serialisation; "
        "mutation attempts: setattr on every public property (each member, <switch>_data, byte_size) of the "
        "instance and of every nested instance, and caller-side mutation (append / clear / element replace) "
        "of the lists passed to the constructor. Oracle: every setattr raises AttributeError and leaves "
        "getattr unchanged; every array member is a tuple unaffected by caller-side mutation; serialize "
        "before and after all attempts yields identical bytes. Non-trivial: class with >= 3 public "
        "properties and >= 1 array member or case data; distinct by (xml, class, object).")
ASSUMPTIONS = [
    "private _name attributes and the mutability of a bytearray passed for a blob are not part of the "
    "public interface named in the property and are not asserted",
]
FEATURES = {}


def selftest():
    refcodec.selftest()
    refio.selftest()


def _serialize(s, cls, inst, mode):
    w = s.writer(mode)
    try:
        cls.serialize(w, inst)
        return bytes(w.to_bytearray()).hex()
    except Exception as e:  # noqa
        return f"raised {type(e).__name__}"


def _attack(an, body, inst, cj, path, counter):
    """setattr on every public property of inst (recursively)."""
    names = [n for n, _, _ in spec.body_members(body)] + ["byte_size"]
    for n in names:
        before = getattr(inst, n)
        for newv in (None, 12345, "x", before):
            try:
                setattr(inst, n, newv)
            except AttributeError:
                pass
            except Exception as e:  # noqa
                raise Violation("setattr_raises_attributeerror", cj, "AttributeError", f"{type(e).__name__}: {e}", f"{path}.{n}")
            else:
                raise Violation("setattr_raises_attributeerror", cj, "AttributeError", "assignment succeeded", f"{path}.{n} = {newv!r}")
            counter[0] += 1
        after = getattr(inst, n)
        if after is not before:
            raise Violation("getattr_unchanged_after_setattr", cj, repr(before)[:80], repr(after)[:80], f"{path}.{n}")
        try:
            delattr(inst, n)
        except AttributeError:
            pass
        except Exception as e:  # noqa
            raise Violation("delattr_raises_attributeerror", cj, "AttributeError", f"{type(e).__name__}: {e}", f"{path}.{n}")
        else:
            raise Violation("delattr_raises_attributeerror", cj, "AttributeError", "deletion succeeded", f"{path}.{n}")
    for n, ins, kind in spec.body_members(body):
        v = getattr(inst, n)
        if v is None:
            continue
        if kind == "case_data":
            case = next(c for c in ins["cases"] if spec.case_class_name(ins, c) == type(v).__name__)
            _attack(an, case["body"], v, cj, f"{path}.{n}", counter)
        elif kind == "array":
            if type(v) is not tuple:
                raise Violation("array_member_is_tuple", cj, "tuple", type(v).__name__, f"{path}.{n}")
            r = an.resolve(ins["type"])
            if r["kind"] == "struct":
                for i, el in enumerate(v):
                    _attack(an, r["decl"]["body"], el, cj, f"{path}.{n}[{i}]", counter)
        else:
            r = an.resolve(ins["type"])
            if r["kind"] == "struct":
                _attack(an, r["decl"]["body"], v, cj, f"{path}.{n}", counter)


class _View:
    """A read-only sequence view over a list the caller keeps (a Sequence, not a MutableSequence)."""

    def __init__(self, backing):
        self._b = backing

    def __len__(self):
        return len(self._b)

    def __getitem__(self, i):
        return self._b[i]

    def __iter__(self):
        return iter(list(self._b))


import collections.abc as _abc
_abc.Sequence.register(_View)


def _snapshot(an, body, inst):
    """Every public value reachable from inst (identity of leaves, recursively), incl. byte_size."""
    out = [("byte_size", inst.byte_size)]
    for n, ins, kind in spec.body_members(body):
        v = getattr(inst, n)
        if v is None:
            out.append((n, None))
        elif kind == "case_data":
            case = next(c for c in ins["cases"] if spec.case_class_name(ins, c) == type(v).__name__)
            out.append((n, id(v), _snapshot(an, case["body"], v)))
        elif kind == "array":
            r = an.resolve(ins["type"])
            if r["kind"] == "struct":
                out.append((n, tuple((id(e), tuple(_snapshot(an, r["decl"]["body"], e))) for e in v)))
            else:
                out.append((n, tuple(_frozen(e) for e in v)))
        else:
            r = an.resolve(ins["type"])
            if r["kind"] == "struct":
                out.append((n, id(v), _snapshot(an, r["decl"]["body"], v)))
            else:
                out.append((n, _frozen(v)))
    return out


def _frozen(v):
    """Leaves by value: a byte buffer (blob) is recorded as the bytes it holds at this moment."""
    return bytes(v) if isinstance(v, (bytearray, memoryview)) else v


def _arrays(body, inst, out, path=""):
    for n, ins, kind in spec.body_members(body):
        if kind == "array" and getattr(inst, n) is not None:
            out.append((path + n, getattr(inst, n)))
    return out


def check_case(case, res=None):
    tree = case["tree"]
    with gencase.Session(tree) as s:
        if res is not None:
            res.evaluations += 1
        if not s.usable:
            if res is not None:
                res.labels["generator_or_import_failed(C18)"] += 1
            return
        an = s.an
        for it in case["items"]:
            c = gencase.find_class(an, it["cls"])
            cls = s.cls(c)
            for oj in it["objs"]:
                obj = valuegen.from_json(oj)
                try:
                    Interp(an).serialize(c["body"], obj, c["lex"], it["mode"])
                except (Invalid, Unspecified, Huge):
                    if res is not None:
                        res.labels["obj:not_valid"] += 1
                    continue
                cj = {"tree": tree, "xml": gencase.xml_of(tree),
                      "items": [{"cls": it["cls"], "dir": it["dir"], "objs": [oj], "mode": it["mode"]}]}
                # ---- construction with caller-owned lists (and generators), then caller-side mutation
                try:
                    kw = s.builder.kwargs(cls, c["body"], obj)
                except Exception as e:  # noqa: a nested constructor refused a valid value - C01's business
                    if res is not None:
                        res.labels[f"obj:nested_ctor_{type(e).__name__}"] += 1
                    continue
                owned = {k: v for k, v in kw.items() if isinstance(v, list)}
                kw_gen = dict(kw)
                for k, v in owned.items():
                    kw_gen[k] = (x for x in list(v))
                try:
                    inst = cls(**kw)
                    inst_gen = cls(**kw_gen)
                except Exception as e:  # noqa
                    if res is not None:
                        res.labels[f"obj:ctor_{type(e).__name__}"] += 1
                    continue
                try:
                    before = _snapshot(an, c["body"], inst)
                except Exception as e:  # noqa
                    raise Violation("public_values_readable", cj, "values", f"{type(e).__name__}: {e}")
                b0 = _serialize(s, cls, inst, it["mode"])
                try:
                    after = _snapshot(an, c["body"], inst)
                except Exception as e:  # noqa
                    after = f"{type(e).__name__}: {e}"
                if after != before:
                    raise Violation("instance_unchanged_by_serialize", cj, repr(before)[:200], repr(after)[:200],
                                    "serialising an instance changed what its public properties return")
                bg = _serialize(s, cls, inst_gen, it["mode"])
                if b0 != bg:
                    raise Violation("generator_argument_snapshot", cj, b0, bg)
                # other kinds of iterables the caller may keep changing: a read-only Sequence view
                # over a list, and a tuple
                backing = {k: list(v) for k, v in owned.items()}
                kw_view = dict(kw)
                for k in owned:
                    kw_view[k] = _View(backing[k]) if len(backing[k]) % 2 == 0 else tuple(backing[k])
                try:
                    inst_view = cls(**kw_view)
                except Exception as e:  # noqa
                    raise Violation("array_argument_any_iterable", cj, "instance", f"{type(e).__name__}: {e}")
                for k in owned:
                    if type(getattr(inst_view, k)) is not tuple:
                        raise Violation("array_member_is_tuple", cj, "tuple", type(getattr(inst_view, k)).__name__,
                                        f"{k} built from a read-only sequence view")
                for k in owned:
                    backing[k].append(None)
                    backing[k][:] = [None] * (len(backing[k]) + 1)
                bv = _serialize(s, cls, inst_view, it["mode"])
                if bv != b0:
                    raise Violation("array_unaffected_by_caller_mutation", cj, b0, bv, "sequence view over a mutated list")
                # arrays of small integers may be handed over as bytes / bytearray buffers
                bufs = {k: v for k, v in kw.items() if isinstance(v, list) and v and all(type(x) is int and 0 <= x <= 255 for x in v)}
                if bufs:
                    for mk in (bytearray, bytes):
                        kw_b = dict(kw)
                        held = {}
                        for k, v in bufs.items():
                            held[k] = kw_b[k] = mk(v)
                        try:
                            inst_b = cls(**kw_b)
                        except Exception as e:  # noqa
                            raise Violation("array_argument_any_iterable", cj, "instance", f"{type(e).__name__}: {e}", mk.__name__)
                        for k in bufs:
                            if type(getattr(inst_b, k)) is not tuple:
                                raise Violation("array_member_is_tuple", cj, "tuple", type(getattr(inst_b, k)).__name__,
                                                f"{k} built from {mk.__name__}")
                        if mk is bytearray:
                            for k in bufs:
                                held[k][:] = bytes(len(held[k]) + 2)
                        bb = _serialize(s, cls, inst_b, it["mode"])
                        if bb != b0:
                            raise Violation("array_unaffected_by_caller_mutation", cj, b0, bb, f"{mk.__name__} argument")
                snapshot = {k: tuple(getattr(inst, k)) for k in owned}
                for k, lst in owned.items():
                    if type(getattr(inst, k)) is not tuple:
                        raise Violation("array_member_is_tuple", cj, "tuple", type(getattr(inst, k)).__name__, k)
                    lst.append(lst[0] if lst else 0)
                    if lst:
                        lst[0] = None
                    lst.clear()
                    lst.extend([None, None, None])
                for k in owned:
                    now = getattr(inst, k)
                    if type(now) is not tuple or len(now) != len(snapshot[k]) or any(a is not b for a, b in zip(now, snapshot[k])):
                        raise Violation("array_unaffected_by_caller_mutation", cj, repr(snapshot[k])[:100], repr(now)[:100], k)
                # ---- public mutation attempts
                counter = [0]
                _attack(an, c["body"], inst, cj, ".".join(it["cls"]), counter)
                b1 = _serialize(s, cls, inst, it["mode"])
                if b1 != b0:
                    raise Violation("repeat_serialize_identical", cj, b0, b1, "constructed instance")
                # ---- deserialised instance
                if not b0.startswith("raised") and not (c["lex"] and not it["mode"]):
                    # the bytes arrive in a receive buffer that the connection reuses for the next packet
                    recv = bytearray.fromhex(b0)
                    r = s.reader(recv, chunked=it["mode"])
                    try:
                        # hostile-looking counts would make deserialize loop for hours: ask the reference first
                        ok = Interp(an).deserialize(c["body"], bytes.fromhex(b0), c["lex"], it["mode"])[0] == "ok"
                    except (Huge, Unspecified):
                        ok = False
                    try:
                        inst2 = cls.deserialize(r) if ok else None
                    except Exception:  # noqa: C03's business
                        inst2 = None
                    if inst2 is not None:
                        # a snapshot stays a snapshot: later (de)serialisations of OTHER data through the
                        # same class must not change anything reachable from an instance handed out earlier
                        snap = _snapshot(an, c["body"], inst2)
                        for i_ in range(len(recv)):
                            recv[i_] = 0x2A + (i_ % 7)
                        if _snapshot(an, c["body"], inst2) != snap:
                            raise Violation("instance_unchanged_by_later_calls", cj, repr(snap)[:200],
                                            repr(_snapshot(an, c["body"], inst2))[:200],
                                            "a deserialised instance changed when the receive buffer it was read from was reused")
                        raw = bytes.fromhex(b0)
                        for other in (raw, raw + b"\x05\x06\x07", raw[: max(0, len(raw) - 1)], b""):
                            try:
                                if Interp(an).deserialize(c["body"], other, c["lex"], it["mode"])[0] == "ok":
                                    cls.deserialize(s.reader(other, chunked=it["mode"]))
                            except (Huge, Unspecified):
                                pass
                            except Exception:  # noqa: C03's business
                                pass
                        try:
                            s.builder.build(cls, c["body"], obj)
                        except Exception:  # noqa
                            pass
                        if _snapshot(an, c["body"], inst2) != snap:
                            raise Violation("instance_unchanged_by_later_calls", cj, repr(snap)[:200],
                                            repr(_snapshot(an, c["body"], inst2))[:200],
                                            "a deserialised instance changed after other data was deserialised")
                        d0 = _serialize(s, cls, inst2, it["mode"])
                        _attack(an, c["body"], inst2, cj, ".".join(it["cls"]) + "(deserialized)", counter)
                        d1 = _serialize(s, cls, inst2, it["mode"])
                        if d0 != d1:
                            raise Violation("repeat_serialize_identical", cj, d0, d1, "deserialized instance")
                        if res is not None:
                            res.labels["deserialized_instances"] += 1
                if res is not None:
                    res.labels["instances"] += 1
                    res.labels["setattr_attempts"] += counter[0]
                    members = spec.body_members(c["body"])
                    if len(members) + 1 >= 3 and any(k in ("array", "case_data") for _, _, k in members):
                        res.nontrivial([cj["xml"], it["cls"], oj])
                        res.sample({"class": ".".join(it["cls"]), "object": oj, "setattr_attempts": counter[0],
                                    "caller_lists_mutated": sorted(owned)}, limit=3)


def run_task(task):
    from vlib import specgen as _sg
    _sg.set_tier(task.get("_tier"))
    res = TaskResult()
    try:
        hyp.campaign(gencase.tree_and_items(features=FEATURES, n_classes=3, n_objects=2,
                                            value_kw={"big_lengths": False}),
                     lambda c: check_case(c, res), task["n"], task["seed"], res,
                     shrink_budget=task.get("shrink", 150))
    finally:
        genpkg.cleanup_tmpbase()
    return res


def plan(tier, seed):
    total = 3200 if tier == "quick" else 25000
    W = 16
    return [{"n": total // W, "seed": seed * 1000 + w, "shrink": 150 if tier == "quick" else 1500}
            for w in range(W)]


def finalize(m, tier):
    if m["labels"].get("instances", 0) < 300:
        return f"only {m['labels'].get('instances', 0)} instances attacked"
    return None


def replay(case):
    try:
        check_case(case, None)
    finally:
        genpkg.cleanup_tmpbase()
