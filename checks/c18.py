"""C18 - generation is deterministic and always yields an importable package (DESIGN 5/C18)."""
import json
import os
import subprocess
import sys

from hypothesis import strategies as st

from vlib import gencase, genpkg, hyp, spec, specgen
from vlib.runner import REPO, VERIF, TaskResult, Violation
from vlib.sub_gen import permuted_walk

PROPERTY = "C18"
LEVEL = "exploration"
RULE = ("Hypothesis grammar-based generator of valid multi-file protocol.xml trees (cross-file type "
        "references within the directory layering root<pub<pub/server<map<net<net/client<net/server) x "
        "configurations: (A) natural order in-process (for 3 trees in 10 by a generator object that has "
        "already processed an earlier, valid or invalid, revision of the directory); (B) the same documents in "
        "another spelling (CRLF, XML comments, attribute order, quotes, <x></x>, BOM, no declaration) beside "
        "unrelated files + permuted os.walk results + reversed on-disk "
        "creation order + two generate() calls on one generator object into a directory already holding "
        "a previous output and an unrelated file; (C) a subprocess with a drawn PYTHONHASHSEED (half in the plain C locale) and another "
        "walk permutation; (D) a fresh interpreter importing eolib and checking every declared type "
        "(class, __module__, exported from its public subpackage and from eolib). Oracle: generator "
        "accepts; file sets byte-identical across A/B/C; D reports no problem. Non-trivial: tree with "
        ">= 3 directories holding declarations, >= 1 cross-file reference and >= 1 packet; distinct by XML.")
ASSUMPTIONS = [
    "directory enumeration orders are simulated by permuting os.walk results, not by varying the filesystem",
    "one interpreter (CPython 3.12.1 in /venv)",
    "constructs listed as excluded in DESIGN 4.1 (and the open known findings) are not generated",
]
FEATURES = {}
PY = sys.executable


def selftest():
    pass


def _expect_types(tree):
    out = []
    for d in spec.DIRS:
        for decl in tree["files"].get(d, []):
            name = spec.decl_class_name(decl, d)
            out.append({"name": name, "module": spec.module_of(name, d), "public": spec.public_package_of(d)})
    return out


def _read_out(root):
    out = {}
    for dirpath, dirnames, filenames in os.walk(root):
        for fn in filenames:
            p = os.path.join(dirpath, fn)
            with open(p, "rb") as f:
                out[os.path.relpath(p, root)] = f.read()
    return out


def _diff(a, b):
    keys = sorted(set(a) | set(b))
    bad = [k for k in keys if a.get(k) != b.get(k)]
    return bad


def check_case(case, res=None):
    tree = case["tree"]
    cj = dict(case, xml=gencase.xml_of(tree))
    pkg = genpkg.Package(tree)
    try:
        if res is not None:
            res.evaluations += 1
            feats = spec.tree_features(tree)
            for f in feats:
                res.labels["tree:" + f] += 1
        if pkg.error is not None:
            raise Violation("generator_accepts_valid_tree", cj, "accepted",
                            f"{type(pkg.error).__name__}: {pkg.error}")
        files_a = pkg.generated_files()
        # ---- B: in-process, permuted walk, reversed creation order, pre-populated output, twice
        # directory names are arbitrary: blanks, brackets, percent and hash signs, accents
        xml_b = os.path.join(pkg.root, "xml b [v2] (copy) #1 100% \u00e9")
        rendered = spec.render_tree(tree)
        # the same documents spelled differently (line ends, XML comments, attribute order and quotes, <x></x>,
        # byte order mark, no declaration), next to files a checkout of the protocol also holds
        style = (case.get("walk_seed", 1) * 7 + case.get("walk_seed2", 1)) % 512
        for n_, rel in enumerate(reversed(list(rendered))):
            p = os.path.join(xml_b, rel)
            os.makedirs(os.path.dirname(p), exist_ok=True)
            with open(p, "wb") as f:
                f.write(spec.restyle(rendered[rel], (style + 37 * n_) % 512))
            for extra, text in (("protocol.xsd", '<?xml version="1.0"?>\n<schema><enum name="NotAType"/></schema>\n'),
                                ("protocol.xml.orig", "<protocol><struct name="), ("README.md", "# notes\n")):
                if (n_ + len(extra)) % 2:
                    with open(os.path.join(os.path.dirname(p), extra), "w", encoding="utf-8") as f:
                        f.write(text)
        out_b = os.path.join(pkg.root, "out_b")
        for rel, data in files_a.items():
            p = os.path.join(out_b, rel)
            os.makedirs(os.path.dirname(p), exist_ok=True)
            with open(p, "wb") as f:
                if len(rel) % 2:
                    # the same module as a checkout with CRLF line endings would hold it
                    f.write(data.replace(b"\n", b"\r\n"))
                else:
                    # an earlier, larger revision of the same module: the rerun must replace it completely
                    f.write(data + b"\n# tail of an older, longer revision\n" * (1 + len(rel) % 3))
        with open(os.path.join(out_b, "zzz_unrelated.txt"), "w") as f:
            f.write("keep me")
        # stale modules left over from an earlier, different specification
        stale = {"zzz_stale_type.py": b"class ZzzStaleType:\n    pass\n",
                 os.path.join("net", "zzz_stale_type.py"): b"class ZzzStaleNetType:\n    pass\n"}
        for rel, data in stale.items():
            os.makedirs(os.path.dirname(os.path.join(out_b, rel)), exist_ok=True)
            with open(os.path.join(out_b, rel), "wb") as f:
                f.write(data)
        gm = genpkg.generator_module()
        real_walk = os.walk
        import contextlib
        import io
        from pathlib import Path
        err = None
        try:
            os.walk = permuted_walk(-1)        # sub-directories and files in ascending order
            with contextlib.redirect_stdout(io.StringIO()):
                g = gm.ProtocolCodeGenerator(Path(xml_b))
                g.generate(Path(out_b))
                g.generate(Path(out_b))
                if case.get("walk_seed", 1) % 3 == 0:
                    # "clean, then generate": the previous output is removed and the same process generates again
                    import shutil
                    shutil.rmtree(out_b)
                    gm.ProtocolCodeGenerator(Path(xml_b)).generate(Path(out_b))
                    with open(os.path.join(out_b, "zzz_unrelated.txt"), "w") as f:
                        f.write("keep me")
            # B2: a drawn permutation of the walk, fresh output directory
            os.walk = permuted_walk(case.get("walk_seed", 1) or 1)
            out_b2 = os.path.join(pkg.root, "build [x]", "lib", "eolib", "protocol", "_generated")   # nothing of it exists yet
            with contextlib.redirect_stdout(io.StringIO()):
                gm.ProtocolCodeGenerator(Path(xml_b)).generate(Path(out_b2))
        except Exception as e:  # noqa
            err = e
        finally:
            os.walk = real_walk
        if err is not None:
            raise Violation("generator_accepts_under_permuted_walk", cj, "accepted", f"{type(err).__name__}: {err}")
        files_b = _read_out(out_b)
        if files_b.pop("zzz_unrelated.txt", None) != b"keep me":
            raise Violation("unrelated_file_preserved", cj, "kept", "removed or changed")
        for rel in stale:
            files_b.pop(rel, None)   # stale files may stay or go; they must not influence what is generated
        bad = _diff(files_a, files_b)
        if bad:
            raise Violation("output_independent_of_walk_order_and_reruns", cj, "identical", f"differs: {bad[:5]}")
        bad = _diff(files_a, _read_out(out_b2))
        if bad:
            raise Violation("output_independent_of_walk_order_and_reruns", cj, "identical",
                            f"differs under walk permutation {case.get('walk_seed')}: {bad[:5]}")
        # ---- C: subprocess with a different hash seed and walk permutation
        out_c = os.path.join(pkg.root, "out_c")
        env = dict(os.environ, PYTHONHASHSEED=str(case.get("hashseed", 1)), PYTHONDONTWRITEBYTECODE="1")
        env.pop("PYTHONPATH", None)
        if case.get("hashseed", 1) % 2:
            # a build machine with the plain C locale: the platform's default text encoding is ASCII there
            env.update(LC_ALL="C", LANG="C", PYTHONUTF8="0", PYTHONCOERCECLOCALE="0")
            env.pop("PYTHONIOENCODING", None)
        r = subprocess.run([PY, "-B", os.path.join(VERIF, "vlib", "sub_gen.py"), REPO, pkg.xml_root, out_c,
                            "-2", "0", str(case.get("hashseed", 1) % 4)],      # descending walk order; path spelling
                           env=env, capture_output=True, text=True)
        try:
            jr = json.loads(r.stdout.strip().splitlines()[-1])
        except Exception:
            raise RuntimeError(f"sub_gen failed: {r.stdout[-500:]} {r.stderr[-1500:]}")
        if not jr["ok"]:
            raise Violation("generator_accepts_under_other_hash_seed", cj, "accepted", jr["error"])
        files_c = _read_out(out_c)
        bad = _diff(files_a, files_c)
        if bad:
            raise Violation("output_independent_of_hash_seed_and_walk_order", cj, "identical",
                            f"differs: {bad[:5]} (PYTHONHASHSEED={case.get('hashseed', 1)})")
        # ---- D: fresh interpreter import
        req = {"types": _expect_types(tree), "first_imports": []}
        rp = os.path.join(pkg.root, "req.json")
        with open(rp, "w") as f:
            json.dump(req, f)
        r = subprocess.run([PY, "-B", os.path.join(VERIF, "vlib", "sub_import.py"), pkg.root, rp],
                           env=env, capture_output=True, text=True)
        try:
            jr = json.loads(r.stdout.strip().splitlines()[-1])
        except Exception:
            raise RuntimeError(f"sub_import failed: {r.stdout[-500:]} {r.stderr[-1500:]}")
        if jr["import_error"]:
            raise Violation("package_importable", cj, "import eolib succeeds", jr["import_error"],
                            jr.get("traceback", "")[-600:])
        if jr["problems"]:
            raise Violation("declared_types_exported:" + jr["problems"][0][0], cj, "no problems", jr["problems"][:4])
        if res is not None:
            ndirs = sum(1 for d in spec.DIRS if tree["files"].get(d))
            npk = sum(1 for d in spec.DIRS for x in tree["files"].get(d, []) if x["kind"] == "packet")
            if ndirs >= 3 and "cross_file_ref" in feats and npk >= 1:
                res.nontrivial(gencase.xml_of(tree))
                res.sample({"files": {k: v[:400] for k, v in list(gencase.xml_of(tree).items())[:2]},
                            "generated_files": len(files_a), "hashseed": case.get("hashseed")}, limit=2)
            res.labels["types_checked"] += len(req["types"])
    finally:
        pkg.close()


@st.composite
def cases(draw):
    tree = dict(draw(specgen.trees(features=FEATURES)))
    tree.pop("_excluded", None)
    # configuration numbers: Hypothesis favours a few values for such side inputs, so they are spread with a
    # digest of the drawn numbers and the tree (recorded in the case, so replay does not depend on this)
    import hashlib
    raw = [draw(st.integers(1, 100000)), draw(st.integers(1, 1000)), draw(st.integers(1, 1000))]
    dig = hashlib.blake2b(json.dumps([raw, tree], sort_keys=True, default=str).encode(), digest_size=12).digest()
    return {"tree": tree, "hashseed": 1 + int.from_bytes(dig[0:4], "big") % 100000,
            "walk_seed": 1 + int.from_bytes(dig[4:8], "big") % 1000, "walk_seed2": 1 + int.from_bytes(dig[8:12], "big") % 1000}


def run_task(task):
    from vlib import specgen as _sg
    _sg.set_tier(task.get("_tier"))
    res = TaskResult()
    try:
        hyp.campaign(cases(), lambda c: check_case(c, res), task["n"], task["seed"], res,
                     shrink_budget=task.get("shrink", 60))
    finally:
        genpkg.cleanup_tmpbase()
    return res


def plan(tier, seed):
    total = 800 if tier == "quick" else 5000
    W = 16
    return [{"n": total // W, "seed": seed * 1000 + w, "shrink": 60 if tier == "quick" else 400}
            for w in range(W)]


def replay(case):
    try:
        check_case(case, None)
    finally:
        genpkg.cleanup_tmpbase()
