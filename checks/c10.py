"""C10 - packet-encryption primitives are lossless and exactly invertible (DESIGN 5/C10)."""
import itertools

from hypothesis import strategies as st

from vlib import hyp, loader
from vlib.runner import TaskResult, Violation

PROPERTY = "C10"
LEVEL = "exploration"

WEAVE_MAX = {"quick": 2048, "thorough": 20000}
PAT_MULTIPLES = (1, 2, 3, 5, 7, 128, 255, 256, 1000)
PAT_MAXN = 12
WEAVE_SHARDS = 16

RULE = {
    "quick": "four generators: (1) weave: every length 0..2048 with position-tagged data (low and high tag "
             "plane, plus one unrelated content plane) through interleave and deinterleave; (2) flip_msb: "
             "each of the 256 byte values alone, and all of them in one array in both orders; (3) "
             "swap_multiples: every divisibility pattern of length 0..12 (bit i = byte i is a multiple) for "
             "multiples 1,2,3,5,7,128,255,256,1000, run members tagged distinctly where the multiple allows; "
             "(4) Hypothesis: random arrays for the weave and flip_msb, swap_multiples on data built from "
             "drawn run layouts (segments of multiples / non-multiples, zeros, runs at either end, adjacent "
             "segments) x multiple in 0..300, large multiples, negative multiples, and pipelines of 1..8 "
             "drawn operations followed by the inverse operations in reverse order. Non-trivial: weave with "
             "length > 2 whose output differs from its input; flip_msb data with a byte outside {0,128}; "
             "swap_multiples with multiple > 0 where a run is actually reordered, or multiple <= 0 on data "
             "with two different adjacent bytes; pipelines of >= 2 operations whose forward result differs "
             "from the input. Distinct by hash of (operation, multiple/ops, data).",
    "thorough": "as quick with weave lengths 0..20000 and ten times the Hypothesis budget. Same "
                "non-triviality rule.",
}
EXHAUSTIVE = {
    "quick": "interleave/deinterleave: the position permutation for every length 0..2048; flip_msb: all 256 "
             "byte values; swap_multiples: all 2^n divisibility patterns for n <= 12 and multiples "
             "{1,2,3,5,7,128,255,256,1000} with one tagging each (multiple 1 has only the all-multiples "
             "pattern). Byte contents, other multiples and pipelines are sampled, not exhaustive",
    "thorough": "as quick, with the position permutation for every length 0..20000",
}
ASSUMPTIONS = [
    "the weave (even output slots take the front half ascending, odd slots the back half descending) and "
    "the reversal of every maximal run of multiples are the documented behaviour: the property statement "
    "itself only demands inverse permutations / an involution, the concrete layout comes from the "
    "docstrings and is pinned in the self-test by the repository's 7 literal vectors per function",
    "the functions are called on bytearray only, as the API documents (in-place)",
    "a position permutation is observed through two tag planes (index mod 256, index div 256), which "
    "identifies positions only if the function moves bytes without looking at their values; an unrelated "
    "third plane and random data are checked against the permutation so obtained",
]

_IN = [
    "48656c6c6f2c20576f726c6421",
    "576527726520bc206f6620746865207761792074686572652c20736f20be2069732072656d61696e696e672e",
    "3634b2203d2034303936",
    "a92046d2d62042c3522042c55a2032303134",
    "d67878f62058f6f67820224cebef74682053e4eb22202d20229f22",
    "50616464656420776974682030784646ffffffffffffffff",
    "5468697320737472696e6720636f6e7461696e73204e554c00202876616c756520302920616e6420612080202876616c75652031323829",
]
VECTORS = {
    "interleave": [
        "482165646c6c6c726f6f2c5720",
        "572e6567276e7269656e2069bc61206d6f656672202074736869652020be7720616f79732020742c68656572",
        "36363439b23020343d20",
        "a93420314630d232d620205a42c5c3425220",
        "d622789f7822f620202d5820f622f6eb78e4205322204c68eb74ef",
        "50ff61ff64ff64ff65ff64ff20ff77ff6946744668782030",
        "5429683869327331202073657475726c69616e766728202063806f206e6174206164696e6e61732020294e3055204c650075206c286176",
    ],
    "deinterleave": [
        "486c6f206f6c216472572c6c65",
        "572765bc6f206820612068722c73202073726d6969672e6e6e61652069be6f20656574797765746620207265",
        "36b23d34393630202034",
        "a946d64252425a3231343020c520c320d220",
        "d67820f67822eb7420e4222d22229f2020eb5368ef4c20f658f678",
        "5064652069683046ffffffffffffffff4678207477646461",
        "546920746967636e616e2055002861752029616461802861752032293831656c762020206e2030656c76204c4e7369746f206e72737368",
    ],
    "flip_msb": [
        "c8e5ececefaca0d7eff2ece4a1",
        "d7e5a7f2e5a03ca0efe6a0f4e8e5a0f7e1f9a0f4e8e5f2e5aca0f3efa03ea0e9f3a0f2e5ede1e9eee9eee7ae",
        "b6b432a0bda0b4b0b9b6",
        "29a0c65256a0c243d2a0c245daa0b2b0b1b4",
        "56f8f876a0d87676f8a0a2cc6b6ff4e8a0d3646ba2a0ada0a21fa2",
        "d0e1e4e4e5e4a0f7e9f4e8a0b0f8c6c67f7f7f7f7f7f7f7f",
        "d4e8e9f3a0f3f4f2e9eee7a0e3efeef4e1e9eef3a0ced5cc00a0a8f6e1ecf5e5a0b0a9a0e1eee4a0e1a080a0a8f6e1ecf5e5a0b1b2b8a9",
    ],
    "swap3": [
        "48656f6c6c2c206c726f576421",
        "576572276520bc20666f20746865207761792074686572652c20736f20be2069732072656d61696e696e672e",
        "3634b2203d2034363930",
        "a92046d2d620c342522042c55a2032303134",
        "d6f67878205878f6f620224cebef74682053e4eb22202d20229f22",
        "50616464656420776974682078304646ffffffffffffffff",
        "5468697320737469726e67206f636e7461696e73204e554c0020287661756c6520302920616e642061208020287661756c652031323829",
    ],
}


# ------------------------------------------------------------------------------------------
# own models

def weave_src(L):
    """src[j] = input index that lands in output slot j of interleave."""
    return [(j >> 1) if not (j & 1) else L - 1 - (j >> 1) for j in range(L)]


def m_interleave(x):
    return bytes(x[s] for s in weave_src(len(x)))


def m_deinterleave(x):
    out = bytearray(len(x))
    for j, s in enumerate(weave_src(len(x))):
        out[s] = x[j]
    return bytes(out)


def m_flip(x):
    return bytes(b if b in (0, 128) else b ^ 0x80 for b in x)


def m_swap(x, m):
    if m == 0:
        return bytes(x)
    out = bytearray()
    for is_mult, grp in itertools.groupby(x, key=lambda b: b % m == 0):
        g = list(grp)
        if is_mult:
            g.reverse()
        out.extend(g)
    return bytes(out)


def runs_of(x, m):
    """[(start, length)] of the maximal runs of multiples of m > 0."""
    out = []
    i = 0
    for is_mult, grp in itertools.groupby(x, key=lambda b: b % m == 0):
        n = len(list(grp))
        if is_mult:
            out.append((i, n))
        i += n
    return out


def selftest():
    assert weave_src(6) == [0, 5, 1, 4, 2, 3] and weave_src(5) == [0, 4, 1, 3, 2]
    assert m_interleave(bytes(range(6))) == bytes([0, 5, 1, 4, 2, 3])
    assert m_deinterleave(bytes(range(6))) == bytes([0, 2, 4, 5, 3, 1])
    assert m_flip(bytes([0, 1, 127, 128, 129, 254, 255])) == bytes([0, 129, 255, 128, 1, 126, 127])
    assert m_swap(bytes([10, 21, 27]), 3) == bytes([10, 27, 21])
    assert m_swap(bytes([0, 5, 0, 0]), 1000) == bytes([0, 5, 0, 0])
    assert m_swap(bytes([3, 6, 9, 1, 12, 15]), 3) == bytes([9, 6, 3, 1, 15, 12])
    assert runs_of(bytes([3, 6, 1, 9]), 3) == [(0, 2), (3, 1)]
    for k, h in enumerate(_IN):
        x = bytes.fromhex(h)
        assert m_interleave(x).hex() == VECTORS["interleave"][k], k
        assert m_deinterleave(x).hex() == VECTORS["deinterleave"][k], k
        assert m_flip(x).hex() == VECTORS["flip_msb"][k], k
        assert m_swap(x, 3).hex() == VECTORS["swap3"][k], k
        assert m_deinterleave(m_interleave(x)) == x and m_interleave(m_deinterleave(x)) == x
    assert _pattern_data(0b0111, 4, 3) is not None and _pattern_data(0b0101, 4, 1) is None


# ------------------------------------------------------------------------------------------
# calling the code under test

def _call(f, x, case, name, *args):
    buf = bytearray(x)
    # in-place operations work on buffers other code holds views of: every other call is made while a
    # memoryview export of the buffer is alive
    # (buffers of two or more bytes only: CPython refuses a no-op assignment to an EMPTY extended slice of an
    # exported bytearray, which is the interpreter's quirk, not a resize)
    export = memoryview(buf) if len(x) >= 2 and (len(x) + x[0]) % 2 else None  # noqa: F841
    try:
        f(buf, *args)
    except Exception as ex:
        raise Violation("no_exception", case, "returns", f"{type(ex).__name__}: {ex}", name)
    return bytes(buf)


_perm_cache = {}



def _threaded(funcs_inputs_expected, res, clause_case):
    """Calls that work on DIFFERENT buffers must not disturb each other when they run on different
    threads (the functions are documented as operating in place on the buffer they are given; nothing is
    shared). 4 threads x many calls with a tiny switch interval; a correct library passes whatever the
    interleaving, so this can never raise a false alarm - it only has a chance to expose shared scratch
    state."""
    import sys
    import threading
    old = sys.getswitchinterval()
    bad = []

    def work(k):
        for rep_ in range(60):
            for f, x, exp in funcs_inputs_expected[k::4]:
                buf = bytearray(x)
                try:
                    f(buf)
                except Exception as e:  # noqa
                    bad.append((x.hex(), f"raised {type(e).__name__}"))
                    return
                if bytes(buf) != exp:
                    bad.append((x.hex(), bytes(buf).hex()[:80]))
                    return
    sys.setswitchinterval(1e-6)
    try:
        ts = [threading.Thread(target=work, args=(k,)) for k in range(4)]
        for t in ts:
            t.start()
        for t in ts:
            t.join()
    finally:
        sys.setswitchinterval(old)
    res.extra["threaded_calls"] = res.extra.get("threaded_calls", 0) + 60 * len(funcs_inputs_expected)
    if bad:
        raise Violation("independent_of_concurrent_calls_on_other_buffers", clause_case(bad[0][0]),
                        "the single-threaded result", bad[0][1])


def observed_perms(c, L, case):
    """Position permutations of interleave / deinterleave for length L as performed by the code under
    test on tagged data: (perm_i, perm_d) with out[j] == in[perm[j]], or a Violation if the output is
    not a rearrangement of the tags."""
    if L in _perm_cache:
        return _perm_cache[L]
    lo = bytes(i & 0xFF for i in range(L))
    hi = bytes(i >> 8 for i in range(L))
    got = []
    for name, f in (("interleave", c.encrypt.interleave), ("deinterleave", c.encrypt.deinterleave)):
        a, b = _call(f, lo, case, name), _call(f, hi, case, name)
        if len(a) != L or len(b) != L:
            raise Violation(f"{name}_length", case, L, (len(a), len(b)), "tagged data")
        perm = [a[j] | (b[j] << 8) for j in range(L)]
        if sorted(perm) != list(range(L)):
            raise Violation(f"{name}_is_permutation", case, "each input index exactly once",
                            perm[:64], f"length {L}, tagged data")
        got.append(perm)
    if len(_perm_cache) > 4096:
        _perm_cache.clear()
    _perm_cache[L] = tuple(got)
    return _perm_cache[L]


def check_weave_length(c, L):
    """Domain (1): everything that can be said about one length."""
    case = {"op": "weave_len", "len": L}
    pi, pd = observed_perms(c, L, case)
    # mutually inverse as permutations
    for k in range(L):
        if pi[pd[k]] != k:
            raise Violation("deinterleave_inverts_interleave", case, k, pi[pd[k]], f"position {k} of {L}")
        if pd[pi[k]] != k:
            raise Violation("interleave_inverts_deinterleave", case, k, pd[pi[k]], f"position {k} of {L}")
    # the documented weave
    src = weave_src(L)
    if pi != src:
        j = next(j for j in range(L) if pi[j] != src[j])
        raise Violation("interleave_matches_weave", case, src[j], pi[j], f"output slot {j} of {L}")
    inv = [0] * L
    for j, s in enumerate(src):
        inv[s] = j
    if pd != inv:
        j = next(j for j in range(L) if pd[j] != inv[j])
        raise Violation("deinterleave_matches_weave", case, inv[j], pd[j], f"output slot {j} of {L}")
    # unrelated content goes through the same permutation, and round-trips on real calls
    other = bytes((i * 7 + 3 + (i >> 8) * 13) & 0xFF for i in range(L))
    a = _call(c.encrypt.interleave, other, case, "interleave")
    if a != bytes(other[s] for s in pi):
        raise Violation("permutation_depends_only_on_length", case, None, None, f"interleave, length {L}")
    b = _call(c.encrypt.deinterleave, other, case, "deinterleave")
    if b != bytes(other[s] for s in pd):
        raise Violation("permutation_depends_only_on_length", case, None, None, f"deinterleave, length {L}")
    if _call(c.encrypt.deinterleave, a, case, "deinterleave") != other:
        raise Violation("deinterleave_inverts_interleave", case, None, None, f"content plane, length {L}")
    if _call(c.encrypt.interleave, b, case, "interleave") != other:
        raise Violation("interleave_inverts_deinterleave", case, None, None, f"content plane, length {L}")


def check_weave_data(c, x, case):
    """Random data through both directions. Returns True if interleave moved something."""
    L = len(x)
    inter, deint = c.encrypt.interleave, c.encrypt.deinterleave
    a = _call(inter, x, case, "interleave")
    b = _call(deint, x, case, "deinterleave")
    if len(a) != L:
        raise Violation("interleave_length", case, L, len(a))
    if len(b) != L:
        raise Violation("deinterleave_length", case, L, len(b))
    ba = _call(deint, a, case, "deinterleave")
    if ba != x:
        raise Violation("deinterleave_inverts_interleave", case, x.hex(), ba.hex())
    ab = _call(inter, b, case, "interleave")
    if ab != x:
        raise Violation("interleave_inverts_deinterleave", case, x.hex(), ab.hex())
    pi, pd = observed_perms(c, L, case)
    if a != bytes(x[s] for s in pi):
        raise Violation("permutation_depends_only_on_length", case, bytes(x[s] for s in pi).hex(), a.hex(),
                        "interleave differs from the permutation it performs on tagged data of this length")
    if b != bytes(x[s] for s in pd):
        raise Violation("permutation_depends_only_on_length", case, bytes(x[s] for s in pd).hex(), b.hex(),
                        "deinterleave differs from the permutation it performs on tagged data of this length")
    e = m_interleave(x)
    if a != e:
        raise Violation("interleave_matches_weave", case, e.hex(), a.hex())
    e = m_deinterleave(x)
    if b != e:
        raise Violation("deinterleave_matches_weave", case, e.hex(), b.hex())
    return a != x


def check_flip(c, x, case):
    f = c.encrypt.flip_msb
    a = _call(f, x, case, "flip_msb")
    if len(a) != len(x):
        raise Violation("flip_length", case, len(x), len(a))
    for i, v in enumerate(x):
        if v in (0, 128):
            if a[i] != v:
                raise Violation("flip_fixes_0_and_128", case, v, a[i], f"index {i}")
        elif a[i] != v ^ 0x80:
            raise Violation("flip_toggles_bit7", case, v ^ 0x80, a[i], f"index {i}, input byte {v}")
    aa = _call(f, a, case, "flip_msb")
    if aa != x:
        raise Violation("flip_involution", case, x.hex(), aa.hex())
    return a != x


def check_swap(c, x, m, case):
    """Returns (changed, runs)."""
    f = c.encrypt.swap_multiples
    if m < 0:
        buf = bytearray(x)
        try:
            f(buf, m)
        except ValueError:
            if bytes(buf) != x:
                raise Violation("negative_multiple_leaves_data", case, x.hex(), bytes(buf).hex())
            return False, []
        except Exception as ex:
            raise Violation("negative_multiple_rejected", case, "ValueError", f"{type(ex).__name__}: {ex}")
        raise Violation("negative_multiple_rejected", case, "ValueError", "returned " + bytes(buf).hex())
    a = _call(f, x, case, "swap_multiples", m)
    if m == 0:
        if a != x:
            raise Violation("zero_multiple_is_identity", case, x.hex(), a.hex())
        return False, []
    if len(a) != len(x):
        raise Violation("swap_length", case, len(x), len(a))
    if sorted(a) != sorted(x):
        raise Violation("swap_preserves_multiset", case, x.hex(), a.hex())
    for i, v in enumerate(x):
        if v % m != 0 and a[i] != v:
            raise Violation("swap_fixes_non_multiples", case, v, a[i], f"index {i}")
    aa = _call(f, a, case, "swap_multiples", m)
    if aa != x:
        raise Violation("swap_involution", case, x.hex(), aa.hex(), f"after first application: {a.hex()}")
    e = m_swap(x, m)
    if a != e:
        raise Violation("swap_matches_run_reversal", case, e.hex(), a.hex())
    return e != x, runs_of(x, m)


def _apply_op(c, op, x, case, inverse=False):
    k = op[0]
    if k == "i":
        return _call(c.encrypt.deinterleave if inverse else c.encrypt.interleave, x, case,
                     "deinterleave" if inverse else "interleave")
    if k == "d":
        return _call(c.encrypt.interleave if inverse else c.encrypt.deinterleave, x, case,
                     "interleave" if inverse else "deinterleave")
    if k == "f":
        return _call(c.encrypt.flip_msb, x, case, "flip_msb")
    return _call(c.encrypt.swap_multiples, x, case, "swap_multiples", op[1])


def _model_op(op, x):
    k = op[0]
    if k == "i":
        return m_interleave(x)
    if k == "d":
        return m_deinterleave(x)
    if k == "f":
        return m_flip(x)
    return m_swap(x, op[1])


def _single(c, op, x, case):
    """Re-run the single-operation oracle on an intermediate pipeline state so that a deviation is
    reported under the clause it belongs to."""
    if op[0] in ("i", "d"):
        check_weave_data(c, x, case)
    elif op[0] == "f":
        check_flip(c, x, case)
    else:
        check_swap(c, x, op[1], case)


def check_pipeline(c, ops, x, case):
    cur = x
    for n, op in enumerate(ops):
        nxt = _apply_op(c, op, cur, case)
        if len(nxt) != len(x):
            raise Violation("pipeline_length", case, len(x), len(nxt), f"step {n} {op}")
        e = _model_op(op, cur)
        if nxt != e:
            _single(c, op, cur, case)
            raise Violation("pipeline_step_matches_model", case, e.hex(), nxt.hex(),
                            f"pipeline step {n} {op} on {cur.hex()}")
        cur = nxt
    fwd = cur
    for op in reversed(ops):
        cur = _apply_op(c, op, cur, case, inverse=True)
    if cur != x:
        raise Violation("pipeline_inverse_restores", case, x.hex(), cur.hex(), f"forward result {fwd.hex()}")
    return fwd != x


# ------------------------------------------------------------------------------------------
# generators

def _pattern_data(pattern, n, m):
    """Bytes of length n where byte i is a multiple of m iff bit i of pattern is set; run members are
    tagged distinctly where m has enough multiples below 256, otherwise first-of-run differs from the
    rest. None if the pattern is not realisable (m == 1 has no non-multiples)."""
    mult = [v for v in range(256) if v % m == 0]
    non = [v for v in range(256) if v % m != 0]
    out = bytearray(n)
    k = 0
    for i in range(n):
        if (pattern >> i) & 1:
            if len(mult) >= PAT_MAXN:
                out[i] = mult[i % len(mult)]          # i < 12 <= len(mult): distinct inside any run
            else:
                out[i] = mult[0] if k == 0 else mult[-1]
            k += 1
        else:
            if not non:
                return None
            out[i] = non[(i * 37 + 1) % len(non)]
            k = 0
    return bytes(out)


def _tile(t):
    n, motif = t
    # add the repeat number so that a tiled motif does not make the weave look like the identity
    return bytes((motif[i % len(motif)] + (i // len(motif))) & 0xFF for i in range(n))


_POOLS = {}


def _pools(lay):
    if lay not in _POOLS:
        if len(_POOLS) > 1024:
            _POOLS.clear()
        _POOLS[lay] = ([v for v in range(256) if v % lay == 0], [v for v in range(256) if v % lay != 0])
    return _POOLS[lay]


def _build_swap(t):
    """(multiple, layout divisor used when multiple == 0, segments) -> ("swap", multiple, data).
    A segment is (is_run, [k, ...]); k picks the k-th multiple (k == 0 picks the byte 0) or the k-th
    non-multiple of the layout divisor. Adjacent run segments merge into one longer run."""
    m, lay0, segs = t
    mult, non = _pools(abs(m) if m else lay0)
    out = bytearray()
    for is_run, ks in segs:
        pool = mult if (is_run or not non) else non
        out.extend(pool[k % len(pool)] for k in ks)
    return ("swap", m, bytes(out))


def _strategy():
    # only pre-built strategies combined with tuples/map: no per-case strategy construction
    byte = st.integers(0, 255)
    fixed_pts = st.sampled_from([0, 128, 1, 127, 129, 255])
    arr = st.one_of(st.binary(max_size=96),
                    st.lists(st.one_of(byte, fixed_pts), max_size=40).map(bytes))
    long_arr = st.tuples(st.integers(0, 700), st.lists(byte, min_size=1, max_size=16)).map(_tile)
    weave = st.tuples(st.just("weave"), st.one_of(arr, long_arr))
    flip = st.tuples(st.just("flip"), arr)

    pos_mult = st.one_of(st.integers(1, 300), st.integers(1, 12),
                         st.sampled_from([1, 2, 3, 127, 128, 129, 254, 255, 256, 257, 1000, 65536, 2 ** 31, 2 ** 64]))
    neg_mult = st.one_of(st.integers(-300, -1), st.sampled_from([-1, -2, -3, -256, -2 ** 40]))
    any_mult = st.one_of(pos_mult, pos_mult, pos_mult, pos_mult, st.just(0), neg_mult)
    seg = st.tuples(st.booleans(), st.lists(st.one_of(st.integers(0, 3), byte), min_size=1, max_size=6))
    swap_layout = st.tuples(any_mult, st.integers(1, 9), st.lists(seg, max_size=7)).map(_build_swap)
    swap_raw = st.tuples(st.just("swap"), any_mult, st.binary(max_size=48))

    op = st.one_of(st.just(["i"]), st.just(["d"]), st.just(["f"]),
                   st.tuples(st.just("s"), st.one_of(st.integers(0, 12), st.integers(0, 300),
                                                     st.sampled_from([128, 256, 1000]))).map(list))
    pipe = st.tuples(st.just("pipe"), st.lists(op, min_size=1, max_size=8),
                     st.one_of(st.binary(max_size=48), st.lists(st.integers(0, 24), max_size=24).map(bytes),
                               st.lists(st.one_of(byte, fixed_pts), max_size=33).map(bytes)))
    return st.one_of(weave, flip, swap_layout, swap_layout, swap_layout, swap_raw, pipe, pipe, pipe)


def _swap_labels(res, prefix, x, m, changed, runs):
    if changed:
        res.labels[prefix + "swap:changed"] += 1
    if any(n >= 3 for _, n in runs):
        res.labels[prefix + "swap:run>=3"] += 1
    if runs and runs[0][0] == 0 and runs[0][1] >= 2:
        res.labels[prefix + "swap:run_at_start"] += 1
    if runs and sum(runs[-1]) == len(x) and runs[-1][1] >= 2:
        res.labels[prefix + "swap:run_at_end"] += 1
    if len(runs) >= 2:
        res.labels[prefix + "swap:several_runs"] += 1
    if m > 255:
        res.labels[prefix + "swap:m>255"] += 1


def _adjacent_differ(x):
    return any(x[i] != x[i + 1] for i in range(len(x) - 1))


def check_very_long(c, L):
    """Data-file sized buffers (beyond the 65536 positions the tag planes can tell apart): model + inverse laws.
    The case only records the length; the content is a fixed pattern."""
    x = bytes((i * 13 + (i >> 8) + (i >> 16) + L) % 256 for i in range(L))
    case = {"op": "very_long", "len": L}
    a = _call(c.encrypt.interleave, x, case, "interleave")
    b = _call(c.encrypt.deinterleave, x, case, "deinterleave")
    if a != m_interleave(x):
        raise Violation("interleave_matches_weave", case, "weave model", "differs", f"length {L}")
    if b != m_deinterleave(x):
        raise Violation("deinterleave_matches_weave", case, "weave model", "differs", f"length {L}")
    if _call(c.encrypt.deinterleave, a, case, "deinterleave") != x:
        raise Violation("deinterleave_inverts_interleave", case, "x", "differs", f"length {L}")
    if _call(c.encrypt.interleave, b, case, "interleave") != x:
        raise Violation("interleave_inverts_deinterleave", case, "x", "differs", f"length {L}")
    f = _call(c.encrypt.flip_msb, x, case, "flip_msb")
    if f != m_flip(x):
        raise Violation("flip_matches_model", case, "flip model", "differs", f"length {L}")
    for m in (3, 256, 65536):
        s = _call(c.encrypt.swap_multiples, x, case, "swap_multiples", m)
        if s != m_swap(x, m):
            raise Violation("swap_matches_run_reversal", case, "run-reversal model", "differs", f"length {L} multiple {m}")


def _dispatch(c, case, res=None, prefix=""):
    """Runs the oracle for one JSON case; fills counters when `res` is given."""
    op = case["op"]
    if op == "very_long":
        check_very_long(c, case["len"])
        if res is not None:
            res.nontrivial(["very_long", case["len"]])
        return
    if op == "weave_len":
        L = case["len"]
        check_weave_length(c, L)
        if res is not None:
            res.labels[f"weave_len:{'odd' if L & 1 else 'even'}{'>2' if L > 2 else '<=2'}"] += 1
            if L > 2:
                key = ["weave", bytes(range(L)).hex()] if L <= 256 else ["weave_tagged", L]
                res.nontrivial(key)
    elif op == "weave":
        x = bytes.fromhex(case["hex"])
        moved = check_weave_data(c, x, case)
        if res is not None:
            L = len(x)
            if L > 2 and moved:
                res.labels[f"{prefix}weave:{'odd' if L & 1 else 'even'}>2"] += 1
                res.nontrivial(["weave", case["hex"]])
    elif op == "flip":
        x = bytes.fromhex(case["hex"])
        changed = check_flip(c, x, case)
        if res is not None and changed:
            res.labels[prefix + "flip:changed"] += 1
            res.nontrivial(["flip", case["hex"]])
    elif op == "swap":
        x = bytes.fromhex(case["hex"])
        m = case["m"]
        changed, runs = check_swap(c, x, m, case)
        if res is not None:
            if m > 0:
                _swap_labels(res, prefix, x, m, changed, runs)
                if changed:
                    res.nontrivial(["swap", m, case["hex"]])
            else:
                res.labels[prefix + ("swap:zero" if m == 0 else "swap:negative")] += 1
                if _adjacent_differ(x):
                    res.nontrivial(["swap", m, case["hex"]])
    elif op == "pipe":
        x = bytes.fromhex(case["hex"])
        ops = case["ops"]
        changed = check_pipeline(c, ops, x, case)
        if res is not None:
            res.labels[prefix + f"pipe:len{min(len(ops), 4)}{'+' if len(ops) >= 4 else ''}"] += 1
            if changed and len(ops) >= 2:
                res.labels[prefix + "pipe:changed"] += 1
                res.nontrivial(["pipe", ops, case["hex"]])
    else:
        raise ValueError(f"unknown case {case!r}")


def _to_case(t):
    if t[0] in ("weave", "flip"):
        return {"op": t[0], "hex": t[1].hex()}
    if t[0] == "swap":
        return {"op": "swap", "m": t[1], "hex": t[2].hex()}
    return {"op": "pipe", "ops": [list(o) for o in t[1]], "hex": t[2].hex()}


def run_task(task):
    c = loader.core()
    res = TaskResult()
    kind = task["kind"]
    try:
        if kind == "threads":
            xs = [bytes((i * 13 + k) % 256 for i in range(n)) for n in (2, 7, 64, 255, 1000, 5001) for k in (0, 3, 128)]
            jobs = [(c.encrypt.interleave, x, m_interleave(x)) for x in xs] + \
                   [(c.encrypt.deinterleave, x, m_deinterleave(x)) for x in xs] + \
                   [(c.encrypt.flip_msb, x, m_flip(x)) for x in xs] + \
                   [((lambda b: c.encrypt.swap_multiples(b, 3)), x, m_swap(x, 3)) for x in xs]
            _threaded(jobs, res, lambda h: {"op": "weave", "hex": h, "threads": True})
            return res
        if kind == "opt":
            from vlib import optrun
            from vlib.afterfail import after_failures
            import decimal
            E = c.encrypt
            bad = [lambda: E.interleave(None), lambda: E.deinterleave("ab"), lambda: E.flip_msb(b"ab"), lambda: E.flip_msb(7),
                   lambda: E.swap_multiples(bytearray(b"abc"), -1), lambda: E.swap_multiples(bytearray(b"abc"), None),
                   lambda: E.swap_multiples(bytearray(b"abc"))]
            with decimal.localcontext() as ctx_:
                ctx_.prec = 2
                for x in (bytes(range(1, 40)), bytes([0, 128, 3, 6, 9, 255, 0, 12]) * 9):
                    def good(x=x):
                        out = []
                        for fn, a in ((E.interleave, ()), (E.deinterleave, ()), (E.flip_msb, ()), (E.swap_multiples, (3,)), (E.swap_multiples, (128,))):
                            b = bytearray(x)
                            fn(b, *a)
                            out.append(bytes(b))
                        return out
                    got = after_failures(bad, good)
                    exp = [m_interleave(x), m_deinterleave(x), m_flip(x), m_swap(x, 3), m_swap(x, 128)]
                    if got != ("ok", exp):
                        raise Violation("independent_of_call_history", {"op": "after_failed_calls", "hex": x.hex()}, "models",
                                        str(got)[:200], "valid calls after calls that raised")
            res.extra["calls_after_failed_calls"] = 2
            xs = [bytes((i * 13 + k) % 256 for i in range(n)) for n in (0, 1, 2, 3, 6, 7, 64, 255) for k in (0, 3, 128)]
            jobs = []
            for x in xs:
                for f in ("interleave", "deinterleave", "flip_msb"):
                    jobs.append({"fn": f, "arg": x.hex()})
                for m in (0, 1, 3, 7, 256, -2):
                    jobs.append({"fn": "swap_multiples", "arg": x.hex(), "m": m})
            model = {"interleave": m_interleave, "deinterleave": m_deinterleave, "flip_msb": m_flip}
            for flag in ("-O", "-OO", "-Werror", "-bb", "-Xdev", "first_use", "first_use", "first_use", "first_use"):
                # "first_use": the jobs are the library's first calls in a fresh interpreter, from 8 threads at once
                got = optrun.run(jobs, flag) if flag != "first_use" else optrun.run(jobs, "-B", threads=8)
                for job, g in zip(jobs, got):
                    x = bytes.fromhex(job["arg"])
                    if job["fn"] == "swap_multiples":
                        exp = "raised ValueError" if job["m"] < 0 else (x if job["m"] == 0 else m_swap(x, job["m"])).hex()
                    else:
                        exp = model[job["fn"]](x).hex()
                    if g != exp:
                        if flag == "first_use":
                            raise Violation("independent_of_concurrent_first_use",
                                            {"op": "opt", "job": job, "flag": flag, "jobs": jobs}, exp, g)
                        raise Violation("holds_under_optimized_interpreter", {"op": "opt", "job": job, "flag": flag}, exp, g)
                key = "concurrent_first_use_calls" if flag == "first_use" else "optimized_interpreter_calls"
                res.extra[key] = res.extra.get(key, 0) + len(jobs)
            return res
        if kind == "long":
            for L in (255, 256, 257, 2049, 64008, 64009, 65536, 65537, 70001):
                x = bytes((i * 13 + (i >> 8) + L) % 256 for i in range(L))
                case = {"op": "weave", "hex": x.hex()}
                for _ in range(2):      # twice: the result must not depend on earlier calls
                    if L < 65536:
                        check_weave_data(c, x, case)
                    else:   # the two tag planes only distinguish 65536 positions: model + inverse laws
                        a = _call(c.encrypt.interleave, x, case, "interleave")
                        b = _call(c.encrypt.deinterleave, x, case, "deinterleave")
                        if a != m_interleave(x):
                            raise Violation("interleave_matches_weave", case, "weave model", "differs", f"length {L}")
                        if b != m_deinterleave(x):
                            raise Violation("deinterleave_matches_weave", case, "weave model", "differs", f"length {L}")
                        if _call(c.encrypt.deinterleave, a, case, "deinterleave") != x:
                            raise Violation("deinterleave_inverts_interleave", case, "x", "differs", f"length {L}")
                        if _call(c.encrypt.interleave, b, case, "interleave") != x:
                            raise Violation("interleave_inverts_deinterleave", case, "x", "differs", f"length {L}")
                    check_flip(c, x, {"op": "flip", "hex": x.hex()})
                    for m in (1, 2, 3, 7, 128, 255, 256, 0):
                        check_swap(c, x, m, {"op": "swap", "hex": x.hex(), "m": m})
                res.evaluations += 1
                res.nontrivial(["long", L])
            return res
        if kind == "very_long":
            _dispatch(c, {"op": "very_long", "len": task["len"]}, res)
            res.evaluations += 1
            return res
        if kind == "vectors":
            fs = {"interleave": (c.encrypt.interleave, ()), "deinterleave": (c.encrypt.deinterleave, ()),
                  "flip_msb": (c.encrypt.flip_msb, ()), "swap3": (c.encrypt.swap_multiples, (3,))}
            for name in ("interleave", "deinterleave", "flip_msb", "swap3"):
                f, args = fs[name]
                for k, h in enumerate(_IN):
                    case = {"op": {"interleave": "weave", "deinterleave": "weave", "flip_msb": "flip",
                                   "swap3": "swap"}[name], "hex": h}
                    if name == "swap3":
                        case["m"] = 3
                    got = _call(f, bytes.fromhex(h), case, name, *args)
                    if got.hex() != VECTORS[name][k]:
                        raise Violation("literal_vectors", case, VECTORS[name][k], got.hex(), name)
                    _dispatch(c, case, res)
                    res.evaluations += 1
        elif kind == "weave":
            res.shards_total = 1
            for L in range(task["start"], task["max"] + 1, task["step"]):
                _dispatch(c, {"op": "weave_len", "len": L}, res)
                res.evaluations += 1
            res.shards_done = 1
            L = 7 + task["start"]
            res.sample({"op": "interleave", "input": bytes(range(L)).hex(),
                        "output": _call(c.encrypt.interleave, bytes(range(L)), None, "").hex()}, limit=1)
        elif kind == "flip":
            res.shards_total = 1
            for v in range(256):
                _dispatch(c, {"op": "flip", "hex": bytes([v]).hex()}, res)
                res.evaluations += 1
            for x in (bytes(range(256)), bytes(range(255, -1, -1))):
                _dispatch(c, {"op": "flip", "hex": x.hex()}, res)
                res.evaluations += 1
            res.shards_done = 1
        elif kind == "swap_pat":
            res.shards_total = 1
            m = task["m"]
            for n in range(task["n_lo"], task["n_hi"] + 1):
                for pattern in range(1 << n):
                    x = _pattern_data(pattern, n, m)
                    if x is None:
                        continue
                    _dispatch(c, {"op": "swap", "m": m, "hex": x.hex()}, res)
                    res.evaluations += 1
            res.shards_done = 1
            x = _pattern_data(0b110111 if m != 1 else 0b111111, 6, m)
            res.sample({"op": "swap_multiples", "multiple": m, "input": x.hex(),
                        "output": _call(c.encrypt.swap_multiples, x, None, "", m).hex()}, limit=1)
        elif kind == "hyp":
            def oracle(t):
                res.evaluations += 1
                case = _to_case(t)
                _dispatch(c, case, res, prefix="hyp:")
                res.labels["hyp:" + case["op"]] += 1
                if case["op"] == "pipe" and len(case["ops"]) >= 3:
                    res.sample(case, limit=1)
            hyp.campaign(_strategy(), oracle, task["n"], task["seed"], res)
    except Violation as v:
        res.violation(v)
    return res


def plan(tier, seed):
    # longest tasks first so the 16-process pool stays balanced
    tasks = []
    n = 1200 if tier == "quick" else 12000
    for w in range(16):
        tasks.append({"kind": "hyp", "n": n, "seed": seed * 1000 + w})
    for s in range(WEAVE_SHARDS):
        tasks.append({"kind": "weave", "start": WEAVE_SHARDS - 1 - s, "step": WEAVE_SHARDS, "max": WEAVE_MAX[tier]})
    for m in PAT_MULTIPLES:
        tasks.append({"kind": "swap_pat", "m": m, "n_lo": PAT_MAXN, "n_hi": PAT_MAXN})
    for m in PAT_MULTIPLES:
        tasks.append({"kind": "swap_pat", "m": m, "n_lo": PAT_MAXN - 1, "n_hi": PAT_MAXN - 1})
        tasks.append({"kind": "swap_pat", "m": m, "n_lo": 0, "n_hi": PAT_MAXN - 2})
    tasks += [{"kind": "vectors"}, {"kind": "flip"}, {"kind": "long"}, {"kind": "opt"}, {"kind": "threads"}]
    tasks += [{"kind": "very_long", "len": L} for L in (131071, 131072, 131073, 200001, 262144, 262145, 1048576, 1048577)]
    return tasks


_REQUIRED = ("hyp:weave:odd>2", "hyp:weave:even>2", "hyp:flip:changed", "hyp:swap:changed", "hyp:swap:run>=3",
             "hyp:swap:run_at_start", "hyp:swap:run_at_end", "hyp:swap:several_runs", "hyp:swap:zero",
             "hyp:swap:negative", "hyp:swap:m>255", "hyp:pipe:changed")


def finalize(merged, tier):
    lab = merged["labels"]
    total = sum(lab.get("hyp:" + k, 0) for k in ("weave", "flip", "swap", "pipe"))
    if not total:
        return None
    floor = max(20, total // 400)
    low = [f"{k}={lab.get(k, 0)}" for k in _REQUIRED if lab.get(k, 0) < floor]
    if low:
        return f"Hypothesis shapes below the floor of {floor} (of {total} cases): " + ", ".join(low)
    return None


def replay(case):
    if case.get("op") == "opt":
        from vlib import optrun
        jobs = case.get("jobs") or [case["job"]]
        for _ in range(5 if case["flag"] == "first_use" else 1):
            got = optrun.run(jobs, "-B", threads=8) if case["flag"] == "first_use" else optrun.run(jobs, case["flag"])
            for job, g in zip(jobs, got):
                x = bytes.fromhex(job["arg"])
                if job["fn"] == "swap_multiples":
                    exp = "raised ValueError" if job["m"] < 0 else (x if job["m"] == 0 else m_swap(x, job["m"])).hex()
                else:
                    exp = {"interleave": m_interleave, "deinterleave": m_deinterleave, "flip_msb": m_flip}[job["fn"]](x).hex()
                if g != exp:
                    raise Violation("independent_of_concurrent_first_use" if case["flag"] == "first_use"
                                    else "holds_under_optimized_interpreter", case, exp, g)
        return
    _dispatch(loader.core(), case)
