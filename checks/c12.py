"""C12 - generated sequence starts are always transmittable and reconstructible (DESIGN 5/C12).

The complete choice tree of the three generate() functions is enumerated: the draw functions
of the `random` module are replaced by a scripted source (vlib/rsource.py) that observes the
requested ranges and returns, by depth-first search, every outcome of every draw.
"""
from vlib import loader, rsource
from vlib.runner import HarnessError, TaskResult, Violation

PROPERTY = "C12"
LEVEL = "exploration"
CHAR_LIMIT = 253          # a char holds 0..252
SHORT_LIMIT = 253 ** 2    # a short holds 0..64008
# documented value ranges (inclusive)
VALUE_MAX = {"INIT": 1756, "PING": 1756, "ACCOUNT_REPLY": 239}
KINDS = ("INIT", "PING", "ACCOUNT_REPLY")
SUBSHARDS = {"INIT": 8, "PING": 24, "ACCOUNT_REPLY": 1}

_TEXT = ("exhaustive: randrange/randint/choice/random/getrandbits of the `random` module are "
         "replaced by a scripted source; for InitSequenceStart, PingSequenceStart and "
         "AccountReplySequenceStart every outcome of every draw that generate() requests is "
         "returned once (depth-first over the observed ranges; 57,751 + 442,764 + 240 leaves on "
         "the pinned tree). Per leaf: no exception, value in the documented range, wire components "
         "fit their fields, the matching from-values constructor reproduces the value. "
         "Non-trivial: a leaf where some draw returned the first or last outcome of its requested "
         "range, or where a wire component (seq1, seq2; the value for ACCOUNT_REPLY) is 0 or 252; "
         "leaves are distinct by construction (distinct outcome paths).")
RULE = {"quick": _TEXT, "thorough": _TEXT}
EXHAUSTIVE = {
    "quick": "every leaf of the choice tree of the three generate() functions (every outcome of every "
             "requested draw)",
    "thorough": "every leaf of the choice tree of the three generate() functions (every outcome of "
                "every requested draw)",
}
ASSUMPTIONS = [
    "generate() obtains randomness only through the module-level functions of `random` looked up at "
    "call time (what the repository's tests patch); a generate() that makes no observable draw, or "
    "is not a function of the scripted draws, is a harness error (exit 2), not a pass",
    "documented value ranges: INIT and PING 0..1756, ACCOUNT_REPLY 0..239; fields: char 0..252, "
    "short 0..64008",
]


def _targets(c):
    m = c.sequence_start
    return {
        "INIT": (m.InitSequenceStart.generate, m.InitSequenceStart.from_init_values),
        "PING": (m.PingSequenceStart.generate, m.PingSequenceStart.from_ping_values),
        "ACCOUNT_REPLY": (m.AccountReplySequenceStart.generate, m.AccountReplySequenceStart.from_value),
    }


def _is_int(x):
    return isinstance(x, int) and not isinstance(x, bool)


def _case(kind, trace):
    return {"kind": kind, "draws": [d.to_json() for d in trace]}


def _oracle(kind, rebuild, obj, exc, trace):
    """All clauses of C12 for one leaf. Returns (value, components)."""
    case = _case(kind, trace)
    if exc is not None:
        raise Violation("generation_never_fails", case, "a sequence start",
                        f"raised {type(exc).__name__}: {exc}")
    try:
        value = obj.value
        comps = (value,) if kind == "ACCOUNT_REPLY" else (obj.seq1, obj.seq2)
    except Exception as e:  # noqa
        raise Violation("generation_never_fails", case, "value and components readable",
                        f"raised {type(e).__name__}: {e}")
    if not _is_int(value) or not (0 <= value <= VALUE_MAX[kind]):
        raise Violation("value_in_documented_range", case, f"0..{VALUE_MAX[kind]}", value)
    if kind == "INIT":
        limits = (CHAR_LIMIT, CHAR_LIMIT)
    elif kind == "PING":
        limits = (SHORT_LIMIT, CHAR_LIMIT)
    else:
        limits = (CHAR_LIMIT,)
    for name, x, lim in zip(("seq1", "seq2") if len(comps) == 2 else ("value",), comps, limits):
        if not _is_int(x) or not (0 <= x < lim):
            raise Violation("components_fit_fields", case, f"{name} in 0..{lim - 1}", x,
                            f"value={value} components={list(comps)}")
    try:
        back = rebuild(*comps).value
    except Exception as e:  # noqa
        raise Violation("reconstructed_by_peer", case, value, f"raised {type(e).__name__}: {e}",
                        f"components={list(comps)}")
    if back != value:
        raise Violation("reconstructed_by_peer", case, value, back, f"components={list(comps)}")
    return value, comps


def selftest():
    """The scripted source enumerates a known tree completely, mimics the real functions'
    errors, restores the module; the oracle rejects hand-made bad leaves."""
    import random as rmod
    import types
    saved = {n: getattr(rmod, n) for n in rsource.SCRIPTED + rsource.UNSUPPORTED if hasattr(rmod, n)}

    def toy():
        a = rmod.randrange(0, 4)
        b = rmod.randint(0, a)
        ch = rmod.choice("xy") if b == 0 else None
        return (a, b, ch)

    want = sorted((a, b, ch) for a in range(4) for b in range(a + 1)
                  for ch in (("x", "y") if b == 0 else (None,)))
    src = rsource.ScriptedRandom(rmod, None)
    with src:
        root = rsource.run_scripted(src, toy, [])[2][0]
        assert (root.fn, root.args, root.count) == ("randrange", (0, 4, 1), 4)
        got = []
        for w in range(3):                       # sharded exactly like run_task
            for i in range(w, root.count, 3):
                got += [obj for obj, exc, tr in rsource.walk(src, toy, [i])]
        assert sorted(got, key=repr) == sorted(want, key=repr) and len(got) == 14, got
        # a bad request behaves like the real function and is a leaf of its own
        for bad, etype in ((lambda: rmod.randrange(0, 0), ValueError), (lambda: rmod.randrange(5, 2), ValueError),
                           (lambda: rmod.randint(3, 2), ValueError), (lambda: rmod.choice([]), IndexError),
                           (lambda: rmod.randrange(0, 2.5), TypeError)):
            leaves = list(rsource.walk(src, bad, []))
            assert len(leaves) == 1 and isinstance(leaves[0][1], etype), leaves
            try:
                for n in rsource.SCRIPTED:
                    setattr(rmod, n, saved[n])
                bad()
                raise AssertionError("the real function accepted the request")
            except etype:
                pass
            finally:
                for n in rsource.SCRIPTED:
                    setattr(rmod, n, getattr(src, n))
        # getrandbits small = complete, random() = sampled (never claimed exhaustive)
        tr = rsource.run_scripted(src, lambda: (rmod.getrandbits(3), rmod.random()), [])[2]
        assert tr[0].count == 8 and not tr[0].sampled and tr[1].sampled
        # a function that does not depend only on the scripted draws is refused
        state = {"n": 0}

        def drifting():
            state["n"] += 1
            return rmod.randrange(0, 2 + state["n"] % 2), rmod.randrange(0, 2)
        try:
            list(rsource.walk(src, drifting, []))
            raise AssertionError("non-deterministic tree accepted")
        except HarnessError:
            pass
        try:
            rsource.run_scripted(src, lambda: rmod.uniform(0, 1), [])
            raise AssertionError("unsupported draw accepted")
        except HarnessError:
            pass
    for n, f in saved.items():
        assert getattr(rmod, n) is f or getattr(rmod, n) == f, f"random.{n} not restored"

    # oracle on hand-made leaves
    ns = types.SimpleNamespace
    init_back = lambda seq1, seq2: ns(value=seq1 * 7 + seq2 - 13)   # noqa: E731
    ping_back = lambda seq1, seq2: ns(value=seq1 - seq2)            # noqa: E731
    acc_back = lambda value: ns(value=value)                        # noqa: E731
    good = [("INIT", init_back, ns(value=0, seq1=1, seq2=6)), ("INIT", init_back, ns(value=1756, seq1=252, seq2=5)),
            ("PING", ping_back, ns(value=1756, seq1=2007, seq2=251)), ("PING", ping_back, ns(value=0, seq1=252, seq2=252)),
            ("ACCOUNT_REPLY", acc_back, ns(value=239))]
    for kind, back, obj in good:
        _oracle(kind, back, obj, None, [])
    bad = [("INIT", init_back, ns(value=1757, seq1=252, seq2=6), None, "value_in_documented_range"),
           ("INIT", init_back, ns(value=-1, seq1=1, seq2=5), None, "value_in_documented_range"),
           ("INIT", init_back, ns(value=240, seq1=0, seq2=253), None, "components_fit_fields"),
           ("INIT", init_back, ns(value=1, seq1=2, seq2=-1), None, "components_fit_fields"),
           ("INIT", init_back, ns(value=1, seq1=1, seq2=6), None, "reconstructed_by_peer"),
           ("PING", ping_back, ns(value=5, seq1=258, seq2=253), None, "components_fit_fields"),
           ("PING", ping_back, ns(value=5, seq1=64009, seq2=1), None, "components_fit_fields"),
           ("PING", ping_back, ns(value=5, seq1=7, seq2=1), None, "reconstructed_by_peer"),
           ("ACCOUNT_REPLY", acc_back, ns(value=240), None, "value_in_documented_range"),
           ("ACCOUNT_REPLY", acc_back, ns(value=3.0), None, "value_in_documented_range"),
           ("ACCOUNT_REPLY", acc_back, None, ValueError("empty range"), "generation_never_fails")]
    for kind, back, obj, exc, clause in bad:
        try:
            _oracle(kind, back, obj, exc, [])
        except Violation as v:
            assert v.clause == clause, (kind, obj, v.clause, clause)
        else:
            raise AssertionError(f"oracle accepted {kind} {obj}")


def _probe(src, gen, kind):
    """Run once with first outcomes everywhere to learn the root draw."""
    obj, exc, trace = rsource.run_scripted(src, gen, [])
    if not trace:
        raise HarnessError(f"{kind}: generate() made no observable draw from the `random` module "
                           f"(result {obj!r}, exception {exc!r}); cannot substitute the random source")
    return trace[0]


def _run_order(task, c):
    """generate() must not depend on earlier generate() calls: contiguous blocks of first-draw
    outcomes are visited ascending and then descending within ONE process, each with the lowest
    and the highest outcome of the remaining draws, and every result goes through the same oracle.
    A failing case records the scripts that preceded it, so it replays from its saved input."""
    kind, w, nw = task["kind"], task["w"], task["nw"]
    gen, rebuild = _targets(c)[kind]
    res = TaskResult()
    src = rsource.ScriptedRandom(rsource.random_module(c.sequence_start), None)
    n = 0
    with src:
        root = _probe(src, gen, kind)
        lo, hi = root.count * w // nw, root.count * (w + 1) // nw
        hist = []
        prev = None
        for order in (range(lo, hi), range(hi - 1, lo - 1, -1)):
            for i in order:
                _, _, t0 = rsource.run_scripted(src, gen, [i])
                scripts = [[i] + [0] * (len(t0) - 1)]
                if len(t0) > 1:
                    scripts.append([i] + [d.count - 1 for d in t0[1:]])
                for script in scripts:
                    obj, exc, trace = rsource.run_scripted(src, gen, script)
                    n += 1
                    try:
                        _oracle(kind, rebuild, obj, exc, trace)
                        # the start handed out by the PREVIOUS call still describes itself correctly
                        if prev is not None:
                            _oracle(kind, rebuild, prev[0], None, prev[1])
                        prev = (obj, trace)
                    except Violation as v:
                        v.case["history"] = [list(h) for h in hist[-40:]]
                        v.clause = v.clause + ":after_earlier_calls"
                        res.violation(v)
                        res.extra["order_runs"] = n
                        return res
                    hist.append(script)
    res.extra["order_runs"] = n
    res.labels[f"{kind} order-dependence runs"] += n
    return res


_OPT_SUB = r"""
import sys, types, json, random
repo = sys.argv[1]
m = types.ModuleType('eolib'); m.__path__ = [repo + '/src/eolib']; sys.modules['eolib'] = m
from eolib.packet import sequence_start as S
random.seed(int(sys.argv[2]))
out = []
for kind, cls, rebuild in (('INIT', S.InitSequenceStart, S.InitSequenceStart.from_init_values),
                           ('PING', S.PingSequenceStart, S.PingSequenceStart.from_ping_values),
                           ('ACCOUNT_REPLY', S.AccountReplySequenceStart, S.AccountReplySequenceStart.from_value)):
    for _ in range(300):
        try:
            o = cls.generate()
            comps = (o.value,) if kind == 'ACCOUNT_REPLY' else (o.seq1, o.seq2)
            out.append([kind, o.value, list(comps), rebuild(*comps).value])
        except Exception as e:
            out.append([kind, 'raised ' + type(e).__name__, [], None])
print(json.dumps(out))
"""


def _run_opt(task):
    """Configuration spot check: 300 generate() calls per kind (real random source, seeded) in fresh
    `python -O` / `-OO` interpreters; range, field fit and reconstruction are checked on every result."""
    import json
    import subprocess
    import sys
    from vlib.runner import REPO
    res = TaskResult()
    for flag in task.get("flags") or ("-O", "-OO", "-Werror", "-bb", "-Xdev"):
        r = subprocess.run([sys.executable, "-B", flag, "-c", _OPT_SUB, REPO, str(task["seed"])], capture_output=True, text=True)
        if r.returncode != 0:
            from vlib import optrun
            if optrun.library_fault(r.stderr):
                res.violation(Violation("generation_never_fails:library_unusable_under_interpreter_flag",
                                        {"kind": "INIT", "pyflag": flag, "error": optrun.fault_line(r.stderr)},
                                        "a sequence start", optrun.fault_line(r.stderr)))
                return res
            raise HarnessError(f"python {flag} helper failed: {r.stderr[-800:]}")
        for kind, value, comps, back in json.loads(r.stdout.strip().splitlines()[-1]):
            case = {"kind": kind, "pyflag": flag, "value": value, "components": comps}
            if isinstance(value, str):
                res.violation(Violation("generation_never_fails:optimized_interpreter", case, "a sequence start", value))
                return res
            lim = {"INIT": (253, 253), "PING": (253 ** 2, 253), "ACCOUNT_REPLY": (253,)}[kind]
            ok = 0 <= value <= VALUE_MAX[kind] and all(0 <= x < l for x, l in zip(comps, lim)) and back == value
            if not ok:
                res.violation(Violation("holds_under_optimized_interpreter", case, "in range, fitting, reconstructible", [value, comps, back]))
                return res
            res.extra["optimized_interpreter_calls"] = res.extra.get("optimized_interpreter_calls", 0) + 1
    return res


def run_task(task):
    c = loader.core()
    if task.get("opt"):
        return _run_opt(task)
    if task.get("order"):
        return _run_order(task, c)
    kind, w, nw = task["kind"], task["w"], task["nw"]
    gen, rebuild = _targets(c)[kind]
    res = TaskResult()
    res.shards_total = 1
    values = set()
    sampled = 0
    leaves = nt = 0
    first_clause = set()
    nviol = 0
    depth_hist = {}
    src = rsource.ScriptedRandom(rsource.random_module(c.sequence_start), None)
    with src:   # restores the module functions on exit, whatever happens
        root = _probe(src, gen, kind)
        if w == 0:
            res.extra[f"root_draw_{kind}"] = [root.to_json()["fn"], list(root.args), root.count]
        for i in range(w, root.count, nw):
            for obj, exc, trace in rsource.walk(src, gen, [i]):
                leaves += 1
                sampled += sum(1 for d in trace if d.sampled)
                depth_hist[len(trace)] = depth_hist.get(len(trace), 0) + 1
                try:
                    value, comps = _oracle(kind, rebuild, obj, exc, trace)
                except Violation as v:
                    nviol += 1
                    if v.clause not in first_clause:
                        first_clause.add(v.clause)
                        res.violation(v)
                    continue
                values.add(value)
                extreme = any(d.index == 0 or d.index == d.count - 1 for d in trace)
                if extreme or any(x == 0 or x == 252 for x in comps):
                    nt += 1
                if leaves == 137 and w < 2:
                    res.sample({"kind": kind, "draws": "; ".join(
                        f"{d.fn}{tuple(d.args)} -> {d.returned}" for d in trace),
                        "value": value, "components": list(comps)}, limit=1)
    res.evaluations += leaves
    res.nt_count += nt
    if leaves:
        res.labels[f"{kind} leaves"] += leaves
    for k, n in sorted(depth_hist.items()):
        res.labels[f"{kind} draws per leaf = {k}"] += n
    res.extra[f"values_reached_{kind}"] = values
    res.extra["leaves_violating"] = nviol
    res.extra["draws_from_sampled_domains"] = sampled
    if sampled == 0:
        res.shards_done = 1   # a tree with random()/wide getrandbits draws is only sampled
    return res


def plan(tier, seed):
    # identical in both tiers and for every seed: the space is finite and fully enumerated
    tasks = []
    for kind in KINDS:
        for w in range(SUBSHARDS[kind]):
            tasks.append({"kind": kind, "w": w, "nw": SUBSHARDS[kind]})
    tasks.sort(key=lambda t: (t["kind"] != "PING", t["kind"], t["w"]))   # big ones first
    for kind in KINDS:
        for w in range(4):
            tasks.append({"kind": kind, "w": w, "nw": 4, "order": True})
    tasks.append({"kind": "INIT", "w": 0, "nw": 1, "opt": True, "seed": seed})
    return tasks


def finalize(m, tier):
    ex = m["extra"]
    for kind in KINDS:
        vals = ex.pop(f"values_reached_{kind}", set())
        full = set(range(VALUE_MAX[kind] + 1))
        ex[f"values_reached_{kind}"] = {
            "distinct": len(vals), "min": min(vals) if vals else None, "max": max(vals) if vals else None,
            "documented_values_not_reached": len(full - vals),
        }
        if full - vals and not m["violations"]:
            m["warnings"].append(f"{kind}: {len(full - vals)} values of the documented range 0.."
                                 f"{VALUE_MAX[kind]} are never generated (not part of the property "
                                 "statement; reported only)")
        if m["labels"].get(f"{kind} leaves", 0) == 0:
            return f"no leaf enumerated for {kind}"
    return None


def replay(case):
    """Re-run generate() with the recorded outcomes forced. If a recorded outcome is no longer
    inside the range that generate() requests, the random source cannot return it any more and
    the pinned case passes."""
    if case.get("pyflag") and "draws" not in case:
        # a configuration case: the same 300 calls per kind in a fresh interpreter started with that flag
        res = _run_opt({"seed": 1, "flags": [case["pyflag"]]})
        if res.violations:
            v = res.violations[0]
            raise Violation(v["clause"], v["case"], v["expected"], v["actual"], v.get("detail"))
        return
    c = loader.core()
    kind = case["kind"]
    gen, rebuild = _targets(c)[kind]
    forced = case["draws"]
    if case.get("history"):
        src0 = rsource.ScriptedRandom(rsource.random_module(c.sequence_start), None)
        with src0:
            for h in case["history"]:
                try:
                    rsource.run_scripted(src0, gen, list(h))
                except HarnessError:
                    pass

    class _Unreachable(Exception):
        pass

    def chooser(pos, d):
        if pos >= len(forced):
            return 0
        want = forced[pos]
        if isinstance(want["returned"], str) and want["returned"].startswith("raise:"):
            raise _Unreachable()     # the request used to be invalid and now is valid
        if d.fn == "choice":
            if want["index"] < d.count:
                return want["index"]
            raise _Unreachable()
        try:
            return d.domain.index(want["returned"])
        except ValueError:
            raise _Unreachable()

    src = rsource.ScriptedRandom(rsource.random_module(c.sequence_start), chooser)
    obj = exc = None
    with src:
        src.trace = []
        try:
            obj = gen()
        except _Unreachable:
            return
        except HarnessError:
            raise
        except Exception as e:  # noqa
            exc = e
        trace = src.trace
    if not trace:
        raise HarnessError(f"{kind}: generate() made no observable draw")
    _oracle(kind, rebuild, obj, exc, trace)
