"""C03 - generated deserializers obey the spec on truncated or hostile bytes (DESIGN 5/C03)."""
import os
import sys

from hypothesis import strategies as st

from vlib import gencase, genpkg, hyp, refcodec, refio, spec, specgen, valuegen
from vlib.refinterp import Huge, Interp, Invalid, Unspecified
from vlib.refio import RefReader
from vlib.runner import TaskResult, Violation

PROPERTY = "C03"
LEVEL = "exploration"
RULE = ("Hypothesis grammar-based generator of protocol.xml trees fed to the real code generator; for up "
        "to 3 classes per tree (structs, packets and nested case-data classes) byte strings derived from "
        "reference serialisations of valid objects: the valid bytes, prefixes cut at a drawn point, "
        "substitutions/insertions/deletions biased to 00/FE/FF, appended junk, and uniformly random bytes; "
        "entry reader mode plain or chunked. Oracle: the generated deserialize() result equals the "
        "reference interpreter's object field-by-field (types, unknown ordinals, None for absent "
        "optionals), byte_size (nested too) and final reader position agree; only the documented "
        "ValueError (negative fixed-string length) may escape; identical result under two different guard "
        "bands around the reader's slice; a deterministic operation budget (10000 + 10 x (reference reader "
        "operations + reference loop iterations)) detects non-termination. Non-trivial: the input is not a valid serialisation and "
        "parsing reaches an optional decided by remaining, an unbounded array, a chunk boundary, a length "
        "field or a switch; distinct by (xml, class, bytes, mode).")
ASSUMPTIONS = [
    "the reference interpreter (vlib/refinterp.py + RefReader) is the eo-protocol reading rules "
    "(silent points follow the unchanged tree, DESIGN 3.4)",
    "inputs for which the reference predicts > 20,000 loop iterations (hostile 3/4-byte counts) are "
    "skipped and counted: the property does not bound resource use",
    "case-data classes whose body lexically sits inside a <chunked> section are only entered in chunked "
    "mode (the only way their parent ever calls them)",
]
NT_EVENTS = {"optional_absent", "optional_present", "unbounded_array", "chunk_boundary", "length_field", "switch"}
FEATURES = {}


class _Budget(BaseException):
    pass


def selftest():
    refcodec.selftest()
    refio.selftest()


_counting_cls = {}


def counting_reader_cls(base):
    """Subclass of the real EoReader that counts public operations (the generated code only uses
    the public API) and raises _Budget when the budget is exhausted."""
    if base in _counting_cls:
        return _counting_cls[base]

    class CountingReader(base):
        _budget = 0

        def _tick(self):
            self._budget -= 1
            if self._budget < 0:
                raise _Budget()

        @property
        def remaining(self):
            self._tick()
            return base.remaining.fget(self)

        def next_chunk(self):
            self._tick()
            return base.next_chunk(self)

    for name in ("get_byte", "get_bytes", "get_char", "get_short", "get_three", "get_int", "get_string",
                 "get_fixed_string", "get_encoded_string", "get_fixed_encoded_string"):
        def mk(name):
            orig = getattr(base, name)

            def f(self, *a, **kw):
                self._tick()
                return orig(self, *a, **kw)
            f.__name__ = name
            return f
        setattr(CountingReader, name, mk(name))
    _counting_cls[base] = CountingReader
    return CountingReader


GUARDS = (b"\xff" * 8, b"\x01" * 8)


def run_real(s, cls, data, chunked, budget, guard):
    base = sys.modules["eolib.data.eo_reader"].EoReader
    CR = counting_reader_cls(base)
    buf = guard + data + guard
    r = CR(memoryview(buf)[8:8 + len(data)])
    r._budget = 10 ** 9
    if chunked:
        r.chunked_reading_mode = True
    r._budget = budget
    try:
        obj = cls.deserialize(r)
        r._budget = 10 ** 9
        return ("ok", obj, r.position)
    except _Budget:
        return ("budget", None, None)
    except ValueError as e:
        return ("ValueError", e, None)
    except Exception as e:  # noqa
        return ("exception", e, None)


def check_one(s, c, cls, data, chunked, cj, res=None, valid_input=False):
    an = s.an
    ip = Interp(an)
    try:
        outcome, refobj, rr = ip.deserialize(c["body"], data, c["lex"], chunked)
    except Huge:
        if res is not None:
            res.labels["skipped_huge_count"] += 1
        return
    except Unspecified:
        if res is not None:
            res.labels["skipped_unspecified"] += 1
        return
    if outcome == "RuntimeError":
        if res is not None:
            res.labels["skipped_ref_runtimeerror"] += 1
        return
    # reference reader operations + reference loop iterations (an element of an absent-optional-only
    # struct costs the real reader a `remaining` query although it reads nothing)
    budget = 10000 + 10 * (rr.ops + ip.iters)
    results = []
    for g in GUARDS:
        results.append(run_real(s, cls, data, chunked, budget, g))
    kind, obj, pos = results[0]
    if res is not None:
        res.labels["outcome:" + outcome + "/" + kind] += 1
    if kind == "budget" or results[1][0] == "budget":
        raise Violation("terminates_within_operation_budget", cj, f"<= {budget} reader operations", "budget exhausted")
    if kind == "exception":
        raise Violation("no_other_exception:" + type(obj).__name__, cj,
                        "object" if outcome == "ok" else outcome, f"{type(obj).__name__}: {obj}")
    if results[1][0] != kind:
        raise Violation("independent_of_bytes_outside_the_reader", cj, kind, results[1][0])
    if outcome == "ValueError":
        if kind == "ok":
            if res is not None:
                res.labels["inconclusive_negative_length_tolerated"] += 1
        return
    if kind == "ValueError":
        raise Violation("no_valueerror_unless_negative_length", cj, "object", f"ValueError: {obj}")
    d = valuegen.compare(an, c["body"], obj, refobj)
    if d:
        raise Violation("result_matches_reference", cj, d[1], d[2], f"at {d[0]}")
    if pos != rr.pos:
        raise Violation("final_position", cj, rr.pos, pos)
    d2 = valuegen.compare(an, c["body"], results[1][1], refobj)
    if d2 or results[1][2] != pos:
        raise Violation("independent_of_bytes_outside_the_reader", cj, "same result under both guard bands",
                        f"{d2} pos={results[1][2]}")
    if res is not None:
        res.labels["compared"] += 1
        for e in ip.events:
            res.labels["ev:" + e] += 1
        if not valid_input and (ip.events & NT_EVENTS):
            res.nontrivial([cj["xml"], cj["items"][0]["cls"], data.hex(), chunked])
            res.sample({"class": ".".join(c["path"]), "bytes": data.hex(), "chunked": chunked,
                        "result": repr(obj)[:300], "events": sorted(ip.events)}, limit=3)


def check_case(case, res=None):
    tree = case["tree"]
    with gencase.Session(tree) as s:
        if res is not None:
            res.evaluations += 1
        if not s.usable:
            if res is not None:
                res.labels["generator_or_import_failed(C18)"] += 1
            return
        xml = gencase.xml_of(tree)
        for it in case["items"]:
            c = gencase.find_class(s.an, it["cls"])
            cls = s.cls(c)
            for inp in it["inputs"]:
                data = bytes.fromhex(inp["hex"])
                for chunked in ((False, True) if inp.get("both", True) else (it["chunked"],)):
                    if c["lex"] and not chunked:
                        continue
                    cj = {"tree": tree, "xml": xml,
                          "items": [{"cls": it["cls"], "dir": it["dir"], "chunked": chunked,
                                     "inputs": [{"hex": inp["hex"], "both": False, "kind": inp["kind"]}]}]}
                    if res is not None:
                        res.labels["input:" + inp["kind"]] += 1
                    check_one(s, c, cls, data, chunked, cj, res, valid_input=inp["kind"] == "valid")


SPECIAL = st.sampled_from([0x00, 0xFE, 0xFF, 0x01, 0xFD])


@st.composite
def mutate(draw, seed_bytes):
    kind = draw(st.sampled_from(["valid", "prefix", "prefix", "subst", "subst", "insert", "delete", "junk", "random"]))
    b = bytearray(seed_bytes)
    if kind == "prefix":
        if not b:
            return kind, bytes(b)
        return kind, bytes(b[: draw(st.integers(0, len(b) - 1))])
    if kind == "subst":
        if not b:
            kind = "insert"
        else:
            for _ in range(draw(st.integers(1, 3))):
                i = draw(st.integers(0, len(b) - 1))
                b[i] = draw(st.one_of(SPECIAL, SPECIAL, st.integers(0, 255)))
            return kind, bytes(b)
    if kind == "insert":
        for _ in range(draw(st.integers(1, 3))):
            i = draw(st.integers(0, len(b)))
            b.insert(i, draw(st.one_of(SPECIAL, SPECIAL, st.integers(0, 255))))
        return kind, bytes(b)
    if kind == "delete":
        if not b:
            return "valid", bytes(b)
        for _ in range(draw(st.integers(1, 2))):
            if b:
                del b[draw(st.integers(0, len(b) - 1))]
        return kind, bytes(b)
    if kind == "junk":
        return kind, bytes(b) + bytes(draw(st.lists(st.one_of(SPECIAL, st.integers(0, 255)), min_size=1, max_size=8)))
    if kind == "random":
        return kind, bytes(draw(st.lists(st.one_of(st.integers(0, 255), SPECIAL), min_size=0, max_size=40)))
    return kind, bytes(b)


@st.composite
def cases(draw, n_classes=3, n_seeds=2, n_inputs=5):
    tree = dict(draw(specgen.trees(features=FEATURES)))
    tree.pop("_excluded", None)
    an = spec.Analysis(tree)
    classes = an.classes()
    items = []
    if classes:
        k = min(len(classes), n_classes)
        idxs = gencase.pick_classes(draw, an, classes, k)
        vg = valuegen.ValueGen(an, big_lengths=False)
        for i in idxs:
            c = classes[i]
            inputs = []
            for _ in range(n_seeds):
                obj = vg.body(draw, c["body"])
                try:
                    seed_bytes = Interp(an).serialize(c["body"], obj, c["lex"], draw(st.booleans()))
                except (Invalid, Unspecified):
                    seed_bytes = b""
                for _ in range(n_inputs):
                    kind, data = draw(mutate(seed_bytes))
                    inputs.append({"hex": data.hex(), "kind": kind, "both": draw(st.integers(0, 3)) == 0})
            items.append({"cls": c["path"], "dir": c["dir"], "inputs": inputs, "chunked": draw(st.booleans())})
    return {"tree": tree, "items": items}


def run_atheris(task, res):
    """Secondary engine (thorough tier): coverage-guided fuzzing of a few drawn trees with the same oracle."""
    import json
    import os
    import re
    import subprocess
    import tempfile
    from vlib.runner import VERIF
    drawn = []
    tmp = TaskResult()
    hyp.campaign(cases(n_classes=3, n_seeds=2, n_inputs=2), lambda c: drawn.append(c), task["trees"] * 3,
                 task["seed"], tmp, shrink_budget=0)
    picked = [c for c in drawn if c["items"]][: task["trees"]]
    base = tempfile.mkdtemp(prefix="c03fuzz_", dir=genpkg.tmpbase())
    for ti, c in enumerate(picked):
        an = spec.Analysis(c["tree"])
        classes = an.classes()
        seeds = []
        for it in c["items"]:
            ci = next(i for i, k in enumerate(classes) if k["path"] == it["cls"])
            for inp in it["inputs"]:
                seeds.append({"cls": ci, "mode": int(it["chunked"]), "hex": inp["hex"]})
        cp = os.path.join(base, f"case{ti}.json")
        op = os.path.join(base, f"out{ti}.json")
        json.dump({"tree": c["tree"], "seeds": seeds if task.get("corpus", True) else []}, open(cp, "w"))
        env = dict(os.environ, PYTHONHASHSEED="0")
        r = subprocess.run([sys.executable, "-B", os.path.join(VERIF, "vlib", "fuzz_c03.py"), cp,
                            str(task["runs"]), str(task["seed"] + ti), op], env=env, capture_output=True, text=True)
        m = re.search(r"Done (\d+) runs", r.stderr)
        execs = int(m.group(1)) if m else 0
        out = json.load(open(op)) if os.path.exists(op) else {}
        if not out.get("usable", True):
            res.labels["atheris:tree_not_usable"] += 1
            continue
        if not m and not out:
            raise RuntimeError(f"atheris run failed: {r.stderr[-1500:]}")
        execs = max(execs, out.get("execs", 0))
        res.labels["atheris:trees"] += 1
        res.extra["atheris_execs"] = res.extra.get("atheris_execs", 0) + execs
        res.evaluations += execs
        if out.get("violation"):
            v = out["violation"]
            res.violations.append(v)
            return
    return


def run_task(task):
    from vlib import specgen as _sg
    _sg.set_tier(task.get("_tier"))
    res = TaskResult()
    try:
        if task.get("kind") == "atheris":
            run_atheris(task, res)
        else:
            hyp.campaign(cases(), lambda c: check_case(c, res), task["n"], task["seed"], res,
                         shrink_budget=task.get("shrink", 150))
    finally:
        genpkg.cleanup_tmpbase()
    return res


def plan(tier, seed):
    total = 3200 if tier == "quick" else 25000
    W = 16
    tasks = [{"n": total // W, "seed": seed * 1000 + w, "shrink": 150 if tier == "quick" else 1500}
             for w in range(W)]
    if tier == "thorough" and os.path.isdir(os.path.join(os.path.dirname(os.path.dirname(os.path.abspath(__file__))), ".deps", "atheris")):
        # secondary engine: 16 x 2 trees x 40,000 coverage-guided executions, half with a seed corpus
        tasks += [{"kind": "atheris", "trees": 2, "runs": 40000, "seed": seed * 1000 + 500 + w, "corpus": w % 2 == 0}
                  for w in range(W)]
    return tasks


def finalize(m, tier):
    if m["labels"].get("compared", 0) < 500:
        return f"only {m['labels'].get('compared', 0)} inputs compared"
    return None


def replay(case):
    try:
        check_case(case, None)
    finally:
        genpkg.cleanup_tmpbase()
