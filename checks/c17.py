"""C17 - the generator rejects ill-formed specifications (DESIGN 5/C17)."""
import os
import shutil
import tempfile

from hypothesis import strategies as st

from vlib import gencase, genpkg, hyp, spec, specedit, specgen
from vlib.runner import TaskResult, Violation

PROPERTY = "C17"
LEVEL = "exploration"
RULE = ("Hypothesis grammar-based generator of valid protocol.xml trees (verified accepted by the real "
        "generator in the same case) x one rule-violating edit from a 17-entry catalogue covering the rules "
        "named in the property (redefined/unknown types, redefined members, bad or double length references, "
        "delimited arrays / breaks outside chunks, required after optional, anything after a dummy, unnamed "
        "without value, hardcoded values of wrong type/length, length on non-strings, malformed enums / "
        "underlying types, unsuitable switches, default-first, unknown packet family/action), applied at a "
        "drawn eligible location (top level, inside <chunked>, inside a case, case-in-chunk; any file). "
        "Oracle: original accepted AND edited rejected. Non-trivial = every evaluated pair; distinct by "
        "(edit, sub-mode, placement class, file).")
ASSUMPTIONS = [
    "only violations of rules named in the property statement are generated (DESIGN 5/C17 catalogue)",
    "any exception raised by ProtocolCodeGenerator.generate counts as rejection",
]
FEATURES = {}


def selftest():
    pass


def _accepts(tree, base):
    d = tempfile.mkdtemp(prefix="c17_", dir=base)
    try:
        genpkg.write_xml(tree, os.path.join(d, "xml"))
        err = genpkg.run_generator(os.path.join(d, "xml"), os.path.join(d, "out"))
        return err
    finally:
        shutil.rmtree(d, ignore_errors=True)


def check_case(case, res=None):
    tree = case["tree"]
    base = genpkg.tmpbase()
    if res is not None:
        res.evaluations += 1
    err = _accepts(tree, base)
    if err is not None:
        if res is not None:
            res.labels["original_rejected(C18)"] += 1
        return
    picks = list(case["picks"])
    if case.get("v") == 2:
        # Hypothesis likes lists of equal numbers; choices at different depths of an edit must not be tied together
        picks = [(p * 2654435761 + i * 7919 + (p >> 3)) % 1000003 for i, p in enumerate(picks)]
    used = []

    def pick(seq):
        seq = list(seq)
        i = (picks.pop(0) if picks else 0) % len(seq)
        used.append(i)
        return seq[i]

    edited, placement = specedit.apply_edit(tree, case["edit"], pick)
    if edited is None:
        if res is not None:
            res.labels["no_eligible_location:" + case["edit"]] += 1
        return
    err2 = _accepts(edited, base)
    if res is not None:
        res.labels["edit:" + case["edit"]] += 1
        res.labels["variant:" + case["edit"][:2] + ":" + placement.split(":")[0].split("@")[0]] += 1
        res.nontrivial([case["edit"], placement])
        res.extra.setdefault("pairs", 0)
        res.extra["pairs"] += 1
        if err2 is not None:
            res.labels["exc:" + type(err2).__name__] += 1
            if len(res.samples) < 4 and case["edit"] not in [s.get("edit") for s in res.samples]:
                res.sample({"edit": case["edit"], "placement": placement, "rejected_with": f"{type(err2).__name__}: {err2}"[:200]})
    if err2 is None:
        raise Violation("edited_tree_rejected:" + case["edit"] + ":" + placement.split(":")[0].split("@")[0],
                        {"tree": tree, "edit": case["edit"], "picks": case["picks"], "v": case.get("v"),
                         "xml_edited": gencase.xml_of(edited)},
                        "generator raises", "generator accepted the ill-formed tree", placement)


@st.composite
def cases(draw):
    tree = dict(draw(specgen.trees(features=FEATURES)))
    tree.pop("_excluded", None)
    edit = draw(st.sampled_from([n for n, _ in specedit.CATALOGUE]))
    # eight choices for the edit. Hypothesis re-uses a few favourite values for such side inputs (zeros, repeated
    # numbers), which ties the choices at different depths of an edit together; they are therefore derived from
    # a digest of the drawn bytes AND the tree, and recorded in the case
    import hashlib
    import json
    blob = draw(st.binary(min_size=8, max_size=8))
    dig = hashlib.blake2b(blob + edit.encode() + json.dumps(tree, sort_keys=True, default=str).encode(), digest_size=24).digest()
    picks = [int.from_bytes(dig[i:i + 3], "big") for i in range(0, 24, 3)]
    return {"tree": tree, "edit": edit, "picks": picks, "v": 3}


def run_task(task):
    from vlib import specgen as _sg
    _sg.set_tier(task.get("_tier"))
    res = TaskResult()
    try:
        hyp.campaign(cases(), lambda c: check_case(c, res), task["n"], task["seed"], res,
                     shrink_budget=task.get("shrink", 200))
    finally:
        genpkg.cleanup_tmpbase()
    return res


def plan(tier, seed):
    total = 8000 if tier == "quick" else 64000
    W = 16
    return [{"n": total // W, "seed": seed * 1000 + w, "shrink": 200 if tier == "quick" else 1500}
            for w in range(W)]


def finalize(m, tier):
    pairs = m["extra"].get("pairs", 0)
    if pairs < 0.4 * m["evaluations"]:
        return f"only {pairs} of {m['evaluations']} cases produced an (original, edited) pair"
    missing = [n for n, _ in specedit.CATALOGUE if m["labels"].get("edit:" + n, 0) == 0]
    if missing:
        return f"catalogue entries never exercised: {missing}"
    return None


def replay(case):
    try:
        check_case(case, None)
    finally:
        genpkg.cleanup_tmpbase()
