"""C14 - protocol enums accept every integer and keep its value (DESIGN 5/C14).

Part (a): hand-written ``IntEnum`` classes whose metaclass is the real
``eolib.protocol.protocol_enum_meta.ProtocolEnumMeta``. The classes are built inside the
oracle from drawn member lists; a drawn sequence of constructions (declared and undeclared
values mixed) is replayed against the class and every clause of the property is checked after
every single construction.

``check_enum(E, declared, values, case_json)`` is the per-enum oracle. It knows nothing about
how ``E`` was made, so part (b) (enums of generated packages) can call it unchanged.
"""
import keyword
from enum import EnumMeta, IntEnum

from hypothesis import strategies as st

from vlib import hyp, loader
from vlib.runner import HarnessError, TaskResult, Violation

PROPERTY = "C14"
LEVEL = "exploration"

SWEEP_LO, SWEEP_HI = 0, 64008

RULE = (
    "part (a): hand-written IntEnum classes with the real ProtocolEnumMeta; part (b): the enums of "
    "Hypothesis-generated protocol packages (every underlying type, names incl. None -> None_), each "
    "driven with 1..12 constructions mixing declared ordinals, ordinals +-1/+253, EO boundaries, "
    "negatives, huge values and bools through the same per-enum oracle. Part (a): a case is (enum declaration, sequence of 1..24 "
    "constructions E(n)); every clause is checked after every step. Declaration: 0..8 members, "
    "distinct PascalCase names from a pool of 26 (incl. None_), distinct ordinals from the EO "
    "boundaries (0,1,252..255,64008,64009,16194276,16194277,4097152080,4097152081), 0..12, the "
    "char/int ranges, negatives, and values beyond 2^63; built either by calling the metaclass on a "
    "__prepare__d namespace or by exec of a class statement. Enums with ZERO members are included "
    "(every integer is then undeclared; repaired defect D9b). "
    "Aliases (two names, one ordinal), bool ordinals and the functional API E('Name', names=...) "
    "are not generated either. Values (each step picks one of): a declared ordinal (3/8), a declared "
    "ordinal +-1/+-253 (1/8), or one of a pool of up to 10 other integers drawn for the case from the "
    "boundaries, 0..255, 0..64008, 0..4097152080, +-2^66, +-(2^63+k), True/False (1/2). Non-trivial: the "
    "enum has >= 2 members and the sequence contains at least one declared and at least one "
    "undeclared value; distinct by (style, members, values). Sweeps: for 8 fixed enums and a few "
    "drawn ones (>= 2 members, at least one ordinal inside the range) every n in 0..64008 is "
    "constructed (ascending or descending) with the same per-step oracle; evaluations counts each "
    "construction of a sweep, but a whole sweep counts as ONE non-trivial case."
)
EXHAUSTIVE = {
    "quick": "every integer 0..64008 for each swept enum (8 fixed declarations + the drawn ones listed "
             "under labels sweep.*); declarations, integers outside 0..64008 and construction orders "
             "are sampled, not exhaustive",
    "thorough": "every integer 0..64008 for each swept enum (8 fixed declarations + the drawn ones); "
                "declarations, integers outside 0..64008 and construction orders are sampled, not "
                "exhaustive",
}
ASSUMPTIONS = [
    "the interpreter's enum module exposes _value2member_map_ (CPython 3.8+); it is compared only "
    "with its own state right after class creation and with the declaration",
    "the name of an unrecognised value built from a bool is Unrecognized(<decimal integer>), i.e. "
    "Unrecognized(1) for True: the statement's n is read as the integer, not as its Python repr",
    "E(x) for an x previously returned by E(n) is treated as 'constructing from the integer n' "
    "(an IntEnum instance is an int); only equality/identity clauses are asserted on it",
]

NAME_POOL = [
    "None_", "Ok", "Player", "Spy", "LightGuide", "Guardian", "GameMaster", "HighGameMaster",
    "Down", "Left", "Up", "Right", "Npc", "Item", "Spell", "Reserved4", "Unrecognized", "X",
    "True_", "False_", "A1", "WarpSuck", "PK", "Female", "Male", "Admin",
]
assert all(n.isidentifier() and not keyword.iskeyword(n) and n[0].isupper() for n in NAME_POOL)
assert len(set(NAME_POOL)) == len(NAME_POOL)

BOUNDS = [
    0, 1, 2, 252, 253, 254, 255, 256, 64008, 64009, 64010, 65535, 16194276, 16194277, 16194278,
    4097152080, 4097152081, 4097152082,
    -1, -2, -252, -253, -64009, -4097152081,
    2 ** 31 - 1, 2 ** 31, 2 ** 32 - 1, 2 ** 32,
    2 ** 63 - 1, 2 ** 63, 2 ** 63 + 1, 2 ** 64 - 1, 2 ** 64, 2 ** 64 + 1, 2 ** 100, 2 ** 200,
    -(2 ** 63), -(2 ** 63) - 1, -(2 ** 64), -(2 ** 100),
]

FIXED_SWEEPS = [
    [["Player", 0], ["Spy", 1], ["LightGuide", 2], ["Guardian", 3], ["GameMaster", 4],
     ["HighGameMaster", 5]],
    [["Down", 0], ["Left", 1], ["Up", 2], ["Right", 3]],
    [["None_", 0], ["Ok", 252], ["X", 253], ["A1", 254], ["PK", 255], ["Admin", 64008]],
    [["Ok", 1], ["Npc", 64007], ["Item", 64008], ["Spell", 64009], ["Reserved4", 16194276]],
    [["Female", 7], ["Male", 1000], ["Npc", 32768], ["Item", 50000], ["Spell", 65535]],
    [["Unrecognized", -1], ["None_", 0], ["WarpSuck", 2 ** 63], ["X", 30000]],
    [["Admin", 64008]],
    [["A1", 250], ["Ok", 251], ["X", 252], ["PK", 253], ["Up", 254], ["Down", 255],
     ["Left", 256], ["Right", 257]],
]


# ----------------------------------------------------------------------------------------
# building an enum class from a declaration

def build_enum(meta, members, style="meta", name="DrawnEnum"):
    """members: [[name, ordinal], ...] in declaration order. Raises whatever class creation
    raises (callers decide whether that is a harness error or a violation)."""
    if style == "subclass":
        # a member-less protocol base enum (constructed from before the subclass exists), then the
        # declared enum as its subclass - a hand-written hierarchy the enum machinery allows
        bns = meta.__prepare__("BaseProtocolEnum", (IntEnum,))
        bns["__module__"] = "c14_dynamic"
        bns["__qualname__"] = "BaseProtocolEnum"
        base = meta("BaseProtocolEnum", (IntEnum,), bns)
        try:
            base(3)
            base(0)
            for _mname, ordinal in members:
                base(ordinal)      # the base has seen (and not recognised) every ordinal the subclass declares
        except Exception:  # noqa: BLE001 - the base is only scenery here
            pass
        ns = meta.__prepare__(name, (base,))
        ns["__module__"] = "c14_dynamic"
        ns["__qualname__"] = name
        for mname, ordinal in members:
            ns[mname] = ordinal
        return meta(name, (base,), ns)
    if style == "meta":
        ns = meta.__prepare__(name, (IntEnum,))
        ns["__module__"] = "c14_dynamic"
        ns["__qualname__"] = name
        for mname, ordinal in members:
            ns[mname] = ordinal
        return meta(name, (IntEnum,), ns)
    if style == "class":
        src = f"class {name}(IntEnum, metaclass=Meta):\n" + "".join(
            f"    {mname} = {ordinal!r}\n" for mname, ordinal in members) + ("" if members else "    pass\n")
        g = {"IntEnum": IntEnum, "Meta": meta, "__name__": "c14_dynamic"}
        exec(src, g)  # noqa: S102 - the source is assembled from the fixed name pool and ints
        return g[name]
    raise HarnessError(f"unknown style {style!r}")


def _declared(members):
    d = {}
    for mname, ordinal in members:
        d[mname] = ordinal
    return d


# ----------------------------------------------------------------------------------------
# the oracle

def _same_objects(a, b):
    if len(a) != len(b):
        return False
    for x, y in zip(a, b):
        if x is not y:
            return False
    return True


def check_enum(E, declared, values, case_json):
    """Per-enum oracle of C14.

    E         the enum class under test (its members already exist)
    declared  dict name -> ordinal, in declaration order, distinct ordinals (the model)
    values    sequence of ints (bools allowed) to construct, in this order
    case_json JSON value that replay() understands; copied into every Violation with a
              'fail_step' index added

    Returns {"declared": k, "undeclared": j}. Raises Violation.
    """
    def fail(clause, step, expected, actual, detail=""):
        case = dict(case_json)
        case["fail_step"] = step
        raise Violation(clause, case, expected, actual, detail)

    names = list(declared)
    ordinals = [declared[k] for k in names]
    k = len(names)

    # ---- state right after class creation, tied to the declaration -----------------------
    clause = "members_at_creation"
    try:
        members = [getattr(E, nm) for nm in names]
        for nm, o, m in zip(names, ordinals, members):
            if not isinstance(m, E) or m.name != nm or m.value != o or int(m) != o:
                fail(clause, -1, [nm, o], repr(m), "declared member has the wrong name/value")
        if not _same_objects(list(E), members) or len(E) != k:
            fail(clause, -1, names, repr(list(E)), "list(E) differs from the declaration")
        mm0 = list(E.__members__.items())
        if [a for a, _ in mm0] != names or not _same_objects([b for _, b in mm0], members):
            fail(clause, -1, names, repr(mm0), "__members__ differs from the declaration")
        try:
            v2m = E._value2member_map_
        except AttributeError:
            raise HarnessError("this interpreter's enum has no _value2member_map_")
        vm0 = list(v2m.items())
        if [a for a, _ in vm0] != ordinals or not _same_objects([b for _, b in vm0], members):
            fail(clause, -1, ordinals, repr(vm0), "_value2member_map_ differs from the declaration")
        vm0_types = [type(a) for a, _ in vm0]
    except (Violation, HarnessError):
        raise
    except Exception as e:  # noqa: BLE001
        fail(clause, -1, "declared members present", repr(e), "exception while inspecting the new class")

    by_ord = {}
    for o, m, nm in zip(ordinals, members, names):
        by_ord[o] = (m, nm)

    # an unrelated protocol enum whose values (members and unrecognised ones) are integers like any other
    try:
        Other = build_enum(type(E), [["OtherOnly", 3], ["OtherToo", -424243]], "meta", name="OtherEnum")
        Other(3), Other(5)
    except Exception:  # noqa: BLE001 - scenery only
        Other = None

    n_decl = n_undecl = 0
    for step, n in enumerate(values):
        clause = "construct_never_fails"
        try:
            x = E(n)
            hit = by_ord.get(n)
            if hit is not None:
                n_decl += 1
                m, nm = hit
                clause = "declared_identity"
                if x is not m:
                    fail(clause, step, f"E.{nm}", repr(x), f"n={n!r}")
                clause = "declared_member"
                if x.name != nm or x.value != n or int(x) != n:
                    fail(clause, step, [nm, int(n)], [x.name, repr(x.value)], f"n={n!r}")
            else:
                n_undecl += 1
                clause = "unrecognized_isinstance"
                if not isinstance(x, E) or type(x) is not E:
                    fail(clause, step, "instance of E", repr(type(x)), f"n={n!r}")
                clause = "unrecognized_eq"
                if not (x == n) or not (n == x) or (x != n):
                    fail(clause, step, int(n), repr(x), f"n={n!r}")
                clause = "unrecognized_hash"
                if hash(x) != hash(n):
                    fail(clause, step, hash(n), hash(x), f"n={n!r}")
                clause = "unrecognized_name"
                want = "Unrecognized(%d)" % n
                got = x.name
                if got != want or type(got) is not str:
                    fail(clause, step, want, got, f"n={n!r}")
                clause = "unrecognized_value"
                if not (x.value == n):
                    fail(clause, step, int(n), repr(x.value), f"n={n!r}")
                clause = "unrecognized_int"
                if int(x) != n:
                    fail(clause, step, int(n), repr(int(x)), f"n={n!r}")
                clause = "unrecognized_dict_key"
                d1 = {x: "a"}
                d2 = {n: "b"}
                if d1.get(n) != "a" or d2.get(x) != "b" or x not in d2 or n not in d1:
                    fail(clause, step, "x and n address the same dict slot", repr((d1, d2)), f"n={n!r}")
                d1[n] = "c"
                if len(d1) != 1:
                    fail(clause, step, "x and n address the same dict slot", repr(d1), f"n={n!r}")
            # constructing again from the result is constructing from the same integer
            clause = "reconstruct"
            y = E(x)
            if hit is not None:
                if y is not hit[0]:
                    fail(clause, step, f"E.{hit[1]}", repr(y), f"E(E({n!r}))")
            elif not isinstance(y, E) or not (y == n) or hash(y) != hash(n):
                fail(clause, step, int(n), repr(y), f"E(E({n!r}))")

            if not (isinstance(values, range) and hit is None and step % 8):
                # (long sweeps: at every declared and every 8th other value)
                # an integer that happens to be a value of ANOTHER protocol enum is still just that integer
                if Other is not None:
                    clause = "construct_from_other_enum_value"
                    y = E(Other(n))
                    if hit is not None:
                        if y is not hit[0]:
                            fail(clause, step, f"E.{hit[1]}", repr(y), f"E(OtherEnum({n!r}))")
                    elif not isinstance(y, E) or type(y) is not E or not (y == n) or y.name != "Unrecognized(%d)" % n:
                        fail(clause, step, int(n), repr(y), f"E(OtherEnum({n!r}))")

            # ---- the declared members are untouched -------------------------------------
            clause = "members_unchanged_list"
            if not _same_objects(list(E), members):
                fail(clause, step, names, repr(list(E)), f"after E({n!r})")
            clause = "members_unchanged_len"
            if len(E) != k:
                fail(clause, step, k, len(E), f"after E({n!r})")
            clause = "members_unchanged_members"
            mm = list(E.__members__.items())
            if [a for a, _ in mm] != names or not _same_objects([b for _, b in mm], members):
                fail(clause, step, names, repr(mm), f"after E({n!r})")
            clause = "members_unchanged_value2member"
            vm = list(E._value2member_map_.items())
            if ([a for a, _ in vm] != ordinals or [type(a) for a, _ in vm] != vm0_types
                    or not _same_objects([b for _, b in vm], members)):
                fail(clause, step, ordinals, repr(vm), f"after E({n!r})")
        except Violation:
            raise
        except Exception as e:  # noqa: BLE001 - any exception out of the code under test
            fail(clause, step, "no exception", f"{type(e).__name__}: {e}"[:300], f"n={n!r}")
    return {"declared": n_decl, "undeclared": n_undecl}


def _fresh_meta(meta):
    """A fresh copy of the metaclass' module for every case, so that no state can leak from one
    case into the next (a failing case then fails from its saved input alone)."""
    import importlib.util
    import sys
    mod = sys.modules.get(meta.__module__)
    path = getattr(mod, "__file__", None)
    if not path or getattr(meta, "__name__", "") != "ProtocolEnumMeta":
        return meta            # self-test metaclasses defined in this file
    spec_ = importlib.util.spec_from_file_location("eolib.protocol.protocol_enum_meta", path)
    m = importlib.util.module_from_spec(spec_)
    spec_.loader.exec_module(m)
    return m.ProtocolEnumMeta


def check_declaration(meta, case):
    """Build the enum of a 'seq' or 'sweep' case and run the oracle over its values."""
    meta = _fresh_meta(meta)
    members = case["members"]
    # enum classes come and go (reloaded modules, class factories): a few short-lived enums with OTHER
    # ordinals are created, used and collected first, so that anything keyed by the identity of a dead class
    # has a chance to be found by the class under test
    import gc
    for k in range(3 if case.get("churn") else 0):
        try:
            tmp = build_enum(meta, [["Gone", 424242 + k], ["Also", 7 + k]], "meta", name="DrawnEnum")
            tmp(424242 + k)
            tmp(5)
            for _n, o in members:
                tmp(o)
        except Exception:  # noqa: BLE001
            pass
        tmp = None
    if case.get("churn"):
        gc.collect()
    try:
        E = build_enum(meta, members, case.get("style", "meta"))
    except HarnessError:
        raise
    except Exception as e:  # noqa: BLE001
        c = dict(case)
        c["fail_step"] = -1
        raise Violation("members_at_creation", c, "class creation succeeds",
                        f"{type(e).__name__}: {e}"[:300])
    if case["kind"] == "seq":
        values = case["values"]
        # Other protocol enums live in the same interpreter: construct the same integers on an
        # unrelated sibling enum first (and again afterwards), so that state shared between enum
        # classes (a cache keyed by the integer alone, say) is visible inside this one case.
        try:
            sibling = build_enum(meta, [["SiblingOnly", -987654321]], "meta", name="SiblingEnum")
            for v in values:
                sibling(v)
        except Exception:  # noqa: BLE001 - the sibling is only a disturbance, E is what is judged
            sibling = None
        if sibling is not None:
            for step, v in enumerate(values):
                x = sibling(v)
                if not isinstance(x, sibling):
                    c = dict(case)
                    c["fail_step"] = step
                    raise Violation("unrecognized_isinstance", c, "instance of the sibling enum",
                                    repr(type(x)), f"n={v!r} (sibling enum constructed first)")
    else:
        sibling = None
        values = range(case["lo"], case["hi"] + 1)
        if case.get("desc"):
            values = values[::-1]
    stats = check_enum(E, _declared(members), values, case)
    if case["kind"] == "seq":
        # a second class with the SAME module, name and members (what a module reload or a regenerated
        # package produces) must be served by its own instances, not by the first class' ones
        try:
            twin = build_enum(meta, members, case.get("style", "meta"))
        except Exception:  # noqa: BLE001
            twin = None
        if twin is not None:
            check_enum(twin, _declared(members), values, dict(case, twin=True))
    if sibling is not None:
        # and the constructions on E must not have disturbed the sibling either
        for step, v in enumerate(values):
            try:
                x = sibling(v)
                ok = isinstance(x, sibling) and x == v
            except Exception:  # noqa: BLE001
                ok = False
            if not ok and v != -987654321:
                c = dict(case)
                c["fail_step"] = step
                raise Violation("unrecognized_isinstance", c, "instance of the sibling enum equal to n",
                                "constructing on one enum disturbed another enum", f"n={v!r}")
    return stats


def _trim_sweep(v):
    """Make the replay of a failed sweep stop at the failing construction."""
    c = v.case
    if c.get("kind") == "sweep" and c.get("fail_step", -1) >= 0:
        if c.get("desc"):
            c["lo"] = c["hi"] - c["fail_step"]
        else:
            c["hi"] = c["lo"] + c["fail_step"]
    return v


# ----------------------------------------------------------------------------------------
# generators

_names = st.sampled_from(NAME_POOL)
_ordinals = st.one_of(
    st.sampled_from(BOUNDS),
    st.integers(0, 12),
    st.integers(0, 255),
    st.integers(0, 64008),
    st.integers(0, 4097152080),
    st.integers(-(2 ** 66), 2 ** 66),
)
_huge = st.one_of(st.builds(lambda s, k: s * (2 ** 63 + k), st.sampled_from([1, -1]), st.integers(0, 2 ** 70)),
                  # beyond what a float can hold (conversions to float overflow there)
                  st.sampled_from([2 ** 1023, 2 ** 1024, -(2 ** 1024), 2 ** 1024 + 1, 10 ** 400, -(10 ** 400), 2 ** 2000]))


def _members(min_size=1, ordinals=_ordinals):
    return st.lists(st.tuples(_names, ordinals).map(list), min_size=min_size, max_size=8,
                    unique_by=(lambda t: t[0], lambda t: t[1]))


_other = st.one_of(
    st.sampled_from(BOUNDS), st.integers(0, 12), st.integers(0, 255), st.integers(0, 64008),
    st.integers(0, 4097152080), st.integers(-(2 ** 66), 2 ** 66), _huge, st.booleans(),
)
# A construction is drawn as a small selector that is resolved against the drawn declaration, so
# that the strategy is static and cheap: 0..11 -> a declared ordinal; 12..15 -> a neighbour of one
# (+1, -1, +253, -253; usually undeclared); 16..31 -> an element of the separately drawn pool of
# "other" integers (usually undeclared).
_DELTAS = [1, -1, 253, -253]
_selectors = st.integers(0, 31)


def _raw_members(min_size):
    # drawn without a uniqueness filter (which is slow); _resolve drops repeats, first one wins
    return st.lists(st.tuples(st.integers(0, len(NAME_POOL) - 1), _ordinals),
                    min_size=min_size, max_size=8)


# ordinals that are exactly 0..n-1 but declared in a drawn (usually non-ascending) order
_permuted_members = st.integers(2, 7).flatmap(
    lambda n: st.permutations(list(range(n))).map(lambda p: [(i, o) for i, o in enumerate(p)]))

_seq_raw = st.tuples(
    st.sampled_from(["meta", "class", "subclass"]),
    st.one_of(_raw_members(1), _raw_members(2), _raw_members(4), _raw_members(0), _permuted_members),
    st.lists(_other, min_size=0, max_size=10),
    st.lists(_selectors, min_size=1, max_size=8),
    st.lists(_selectors, min_size=0, max_size=8),
    st.lists(_selectors, min_size=0, max_size=8),
)


def _resolve(raw):
    style, raw_members, others, a, b, c = raw
    members, seen_names, seen_ords = [], set(), set()
    for i, o in raw_members:
        if i not in seen_names and o not in seen_ords:
            seen_names.add(i)
            seen_ords.add(o)
            members.append([NAME_POOL[i], o])
    k = len(members)
    values = []
    for sel in a + b + c:
        if k == 0:      # an enum without members: every integer is undeclared
            values.append(others[sel % len(others)] if others else BOUNDS[sel % len(BOUNDS)])
        elif sel < 12:
            values.append(members[sel % k][1])
        elif sel < 16:
            values.append(members[sel % k][1] + _DELTAS[sel - 12])
        elif others:
            values.append(others[(sel - 16) % len(others)])
        else:
            values.append(BOUNDS[sel - 16])
    return {"kind": "seq", "style": style, "members": members, "values": values,
            "churn": sum(a + b + c) % 16 == 0}


def seq_cases():
    return _seq_raw.map(_resolve)


@st.composite
def sweep_cases(draw):
    inside = st.one_of(st.sampled_from([0, 1, 252, 253, 254, 255, 64007, 64008]),
                       st.integers(0, 255), st.integers(SWEEP_LO, SWEEP_HI))
    members = draw(_members(min_size=2, ordinals=st.one_of(inside, inside, inside, _ordinals)))
    if not any(SWEEP_LO <= o <= SWEEP_HI for _, o in members):
        members[0][1] = draw(inside.filter(lambda v: all(v != o for _, o in members)))
    return {"kind": "sweep", "style": draw(st.sampled_from(["meta", "class"])), "members": members,
            "lo": SWEEP_LO, "hi": SWEEP_HI, "desc": draw(st.booleans())}


def _is_big(n):
    return n >= 2 ** 63 or n < -(2 ** 63)


# ----------------------------------------------------------------------------------------
# tasks

def _do_sweep(meta, case, res):
    try:
        stats = check_declaration(meta, case)
    except Violation as v:
        raise _trim_sweep(v)
    n = case["hi"] - case["lo"] + 1
    res.evaluations += n
    res.extra["constructions"] = res.extra.get("constructions", 0) + n
    res.labels["sweep.enums"] += 1
    res.labels[f"sweep.members={len(case['members'])}"] += 1
    res.labels["sweep.desc" if case.get("desc") else "sweep.asc"] += 1
    if len(case["members"]) >= 2 and stats["declared"] and stats["undeclared"]:
        res.nontrivial(["sweep", case["style"], case["members"], bool(case.get("desc"))])
    return stats


def run_task(task):
    from vlib import specgen as _sg
    _sg.set_tier(task.get("_tier"))
    c = loader.core()
    meta = c.enum_meta.ProtocolEnumMeta
    res = TaskResult()
    kind = task["kind"]
    try:
        if kind == "sweep_fixed":
            res.shards_total = 1
            i = task["index"]
            case = {"kind": "sweep", "style": "class" if i % 2 else "meta",
                    "members": FIXED_SWEEPS[i], "lo": SWEEP_LO, "hi": SWEEP_HI, "desc": i % 4 >= 2}
            stats = _do_sweep(meta, case, res)
            res.sample({"sweep": FIXED_SWEEPS[i], "range": [SWEEP_LO, SWEEP_HI],
                        "desc": case["desc"], **stats})
            res.shards_done = 1
        elif kind == "sweep_drawn":
            res.shards_total = 1

            def sweep_oracle(case):
                stats = _do_sweep(meta, case, res)
                res.sample({"sweep": case["members"], "range": [SWEEP_LO, SWEEP_HI],
                            "desc": case["desc"], **stats}, limit=1)

            if hyp.campaign(sweep_cases(), sweep_oracle, task["n"], task["seed"], res,
                            shrink_budget=4) is None:
                res.shards_done = 1
        elif kind == "hyp":
            def oracle(case):
                res.evaluations += 1
                stats = check_declaration(meta, case)
                members, values = case["members"], case["values"]
                res.extra["constructions"] = res.extra.get("constructions", 0) + len(values)
                res.labels["seq.total"] += 1
                res.labels[f"seq.members={len(members)}"] += 1
                res.labels[f"seq.style={case['style']}"] += 1
                both = stats["declared"] > 0 and stats["undeclared"] > 0
                res.labels["seq.kinds=" + ("both" if both else
                                           "declared_only" if stats["declared"] else "undeclared_only")] += 1
                if any(type(v) is bool for v in values):
                    res.labels["seq.has_bool"] += 1
                if any(_is_big(v) for v in values):
                    res.labels["seq.has_beyond_2^63"] += 1
                if any(v < 0 for v in values):
                    res.labels["seq.has_negative"] += 1
                if any(_is_big(o) or o < 0 for _, o in members):
                    res.labels["seq.ordinal_negative_or_beyond_2^63"] += 1
                if len(members) >= 2 and both:
                    res.labels["seq.nontrivial"] += 1
                    res.nontrivial([case["style"], members, values])
                    if len(res.samples) < 2:
                        E = build_enum(meta, members, case["style"])
                        res.sample({"members": members, "values": values[:8],
                                    "results": [repr(E(v)) for v in values[:8]]})

            hyp.campaign(seq_cases(), oracle, task["n"], task["seed"], res)
        elif kind == "generated":
            from vlib import genpkg
            try:
                hyp.campaign(generated_cases(), lambda case: check_generated(case, res), task["n"],
                             task["seed"], res, shrink_budget=60)
            finally:
                genpkg.cleanup_tmpbase()
    except Violation as v:
        res.violation(v)
    return res


# ----------------------------------------------------------------------------------------
# part (b): enums of generated packages (every underlying type), same per-enum oracle

def check_generated(case, res=None):
    from vlib import gencase, spec
    tree = case["tree"]
    with gencase.Session(tree) as s:
        if res is not None:
            res.evaluations += 1
        if not s.usable:
            if res is not None:
                res.labels["gen.generator_or_import_failed(C18)"] += 1
            return
        for item in case["enums"]:
            decl, _dir = s.an.types[item["enum"]]
            E = s.pkg.enum(item["enum"])
            declared = {("None_" if v["name"] == "None" else v["name"]): v["ord"] for v in decl["values"]}
            cj = {"kind": "generated", "tree": tree, "enums": [item], "xml": gencase.xml_of(tree)}
            stats = check_enum(E, declared, item["values"], cj)
            if res is not None:
                res.labels["gen.enums"] += 1
                res.labels["gen.type=" + decl["type"]] += 1
                res.extra["constructions"] = res.extra.get("constructions", 0) + len(item["values"])
                if len(declared) >= 2 and stats["declared"] > 0 and stats["undeclared"] > 0:
                    res.labels["gen.nontrivial"] += 1
                    res.nontrivial(["generated", decl, item["values"]])
                    if res.labels["gen.nontrivial"] <= 1:
                        res.sample({"generated_enum": decl["name"], "type": decl["type"], "declared": declared,
                                    "values": item["values"][:8], "results": [repr(E(v)) for v in item["values"][:8]]},
                                   limit=6)
        # (c) "values from newer protocol versions survive a read-then-write unchanged": messages that carry
        # undeclared ordinals are read with the generated deserializer and written back
        from vlib import valuegen
        from vlib.refinterp import Huge, Interp, Invalid, Unspecified, strip_sizes
        for it in case.get("items", []):
            c = gencase.find_class(s.an, it["cls"])
            cls = s.cls(c)
            for oj in it["objs"]:
                obj = valuegen.from_json(oj)
                ip = Interp(s.an)
                try:
                    ref = ip.serialize(c["body"], obj, False, False)
                    outcome, back, rr = Interp(s.an).deserialize(c["body"], ref, False, False)
                except (Invalid, Unspecified, Huge):
                    continue
                if "unknown_enum" not in ip.events or outcome != "ok" or strip_sizes(back) != obj or rr.pos != len(ref):
                    continue
                cj = {"kind": "generated", "tree": tree, "enums": [], "xml": gencase.xml_of(tree),
                      "items": [{"cls": it["cls"], "dir": it["dir"], "objs": [oj]}]}
                try:
                    inst = cls.deserialize(s.reader(ref))
                    w = s.writer(False)
                    cls.serialize(w, inst)
                    got = bytes(w.to_bytearray())
                except Exception as e:  # noqa: BLE001
                    raise Violation("unknown_ordinal_survives_read_then_write", cj, ref.hex(),
                                    f"raised {type(e).__name__}: {e}"[:300], ".".join(it["cls"]))
                if got != ref:
                    raise Violation("unknown_ordinal_survives_read_then_write", cj, ref.hex(), got.hex(), ".".join(it["cls"]))
                if res is not None:
                    res.labels["gen.read_then_write_with_unknown_ordinal"] += 1


@st.composite
def generated_cases(draw):
    from vlib import spec, specgen
    tree = dict(draw(specgen.trees(max_decls=6, max_packets=1, canonical=True)))
    tree.pop("_excluded", None)
    enums = []
    for d in spec.DIRS:
        for decl in tree["files"].get(d, []):
            if decl["kind"] != "enum":
                continue
            ords = [v["ord"] for v in decl["values"]]
            near = [o + dlt for o in ords for dlt in (1, -1, 253)] or [0, 1]
            other = st.one_of(st.sampled_from(BOUNDS), st.integers(0, 64008), st.integers(-5, 300),
                              st.sampled_from(near), st.booleans())
            vals = draw(st.lists(st.one_of(st.sampled_from(ords or [0]), other), min_size=1, max_size=12))
            enums.append({"enum": decl["name"], "values": vals})
    # classes with enum-typed members, objects biased towards undeclared ordinals
    from vlib import valuegen
    an = spec.Analysis(tree)

    def has_enum(body):
        return any(i["tag"] in ("field", "array") and an.resolve(i["type"])["kind"] == "enum"
                   for i in spec.Analysis.flatten(body) if i.get("type"))
    classes = [c for c in an.classes() if len(c["path"]) == 1 and has_enum(c["body"])][:2]
    vg = valuegen.ValueGen(an, safe_strings=True, declared_share=3)
    items = [{"cls": c["path"], "dir": c["dir"], "objs": [valuegen.to_json(vg.body(draw, c["body"])) for _ in range(3)]}
             for c in classes]
    return {"tree": tree, "enums": enums, "items": items}


def plan(tier, seed):
    per_sweep, per_hyp = (2, 1500) if tier == "quick" else (8, 15000)
    hyps = [{"kind": "hyp", "n": per_hyp, "seed": seed * 1000 + w} for w in range(16)]
    fixed = [{"kind": "sweep_fixed", "index": i} for i in range(len(FIXED_SWEEPS))]
    drawn = [{"kind": "sweep_drawn", "n": per_sweep, "seed": seed * 1000 + 100 + w} for w in range(8)]
    gen_total = 640 if tier == "quick" else 8000
    gen = [{"kind": "generated", "n": gen_total // 16, "seed": seed * 1000 + 200 + w} for w in range(16)]
    # the first tasks provide the samples of the evidence file; the long tasks go first
    return hyps[:1] + fixed[:1] + drawn[:1] + gen[:1] + hyps[1:] + fixed[1:] + drawn[1:] + gen[1:]


def finalize(merged, tier):
    total = merged["labels"].get("seq.total", 0)
    nt = merged["labels"].get("seq.nontrivial", 0)
    if merged["violations"]:
        return None
    if total == 0:
        return "no sequence case was executed"
    share = nt / total
    if share < 0.5:
        merged["warnings"].append(f"non-trivial share of sequence cases {share:.2f} is below the 0.50 target")
    if share < 0.125:
        return f"non-trivial share of sequence cases collapsed to {share:.3f}"
    if len(merged["nt_hashes"]) < 100:
        return f"only {len(merged['nt_hashes'])} distinct non-trivial cases"
    return None


def replay(case):
    if case.get("kind") == "generated":
        from vlib import genpkg
        try:
            return check_generated(case, None)
        finally:
            genpkg.cleanup_tmpbase()
    c = loader.core()
    try:
        check_declaration(c.enum_meta.ProtocolEnumMeta, case)
    except Violation as v:
        raise _trim_sweep(v)


# ----------------------------------------------------------------------------------------
# self-test of the oracle: a reference metaclass written from the statement must pass, three
# deliberately wrong ones must be rejected with the expected clause

class _RefMeta(EnumMeta):
    def __call__(cls, value, *a, **kw):
        if a or kw:
            return super().__call__(value, *a, **kw)
        for m in cls:
            if int(m) == value:
                return m
        x = int.__new__(cls, value)
        x._name_ = "Unrecognized(" + str(int(value)) + ")"
        x._value_ = int(value)
        return x


class _CachingMeta(_RefMeta):
    def __call__(cls, value, *a, **kw):
        x = super().__call__(value, *a, **kw)
        cls._value2member_map_.setdefault(value, x)
        return x


class _AllUnrecognizedMeta(_RefMeta):
    def __call__(cls, value, *a, **kw):
        x = int.__new__(cls, value)
        x._name_ = "Unrecognized(" + str(int(value)) + ")"
        x._value_ = int(value)
        return x


class _BoolNameMeta(_RefMeta):
    def __call__(cls, value, *a, **kw):
        x = super().__call__(value, *a, **kw)
        if x._name_.startswith("Unrecognized("):
            x._name_ = f"Unrecognized({value})"
        return x


def selftest():
    members = [["None_", 0], ["Ok", 252], ["Spell", -3], ["X", 2 ** 64]]
    values = [0, 5, True, False, 252, -3, -4, 2 ** 64, 2 ** 64 + 1, 5, 0, 64008, -(2 ** 70)]
    for style in ("meta", "class"):
        case = {"kind": "seq", "style": style, "members": members, "values": values}
        stats = check_declaration(_RefMeta, case)
        if stats != {"declared": 6, "undeclared": 7}:
            raise HarnessError(f"self-test: reference metaclass stats {stats}")
        for bad, want in ((EnumMeta, "construct_never_fails"),
                          (_CachingMeta, "members_unchanged_value2member"),
                          (_AllUnrecognizedMeta, "declared_identity"),
                          (_BoolNameMeta, "unrecognized_name")):
            try:
                check_declaration(bad, case)
            except Violation as v:
                if v.clause != want:
                    raise HarnessError(f"self-test: {bad.__name__} rejected by {v.clause}, expected {want}")
            else:
                raise HarnessError(f"self-test: the oracle accepted {bad.__name__}")
    sw = {"kind": "sweep", "style": "meta", "members": members, "lo": 0, "hi": 300, "desc": True}
    check_declaration(_RefMeta, sw)
    try:
        check_declaration(_CachingMeta, sw)
    except Violation as v:
        _trim_sweep(v)
        if (v.case["lo"], v.case["hi"]) != (300, 300):
            raise HarnessError(f"self-test: sweep trimming gave {v.case}")
    else:
        raise HarnessError("self-test: the sweep accepted the caching metaclass")
